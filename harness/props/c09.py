"""C09 — compare reports are faithful to the operands and leave them untouched;
swapping the operands mirrors the report."""
import copy
import re

from n0v import coqlit as L
from n0v.core import Prop
from props import compare_common as CC

_PAIR = re.compile(r"\[(\d+)\]<>\[(\d+)\]")


def mirror_path(p):
    return _PAIR.sub(lambda m: "[%s]<>[%s]" % (m.group(2), m.group(1)), p)


def item_key(x, ck):
    """how the unordered list walk identifies an item: records by their composite key
    (the empty string without one), anything else by value"""
    if isinstance(x, dict):
        return ("rec", CC.record_key(x, ck or []))
    return ("val", repr(L.canon(x)))


class C09(Prop):
    id = "C09"
    props_file = "Props/C09.v"
    refuted_file = None
    rule = ("the pairs of C07 (tree, tree after 0-4 edits; dict and list roots) x {direct_compare, compare} and the keyed "
            "record lists of C08 (with lists inside the records) x compare with composite key, each under a random "
            "history of set__flag_compare_* calls; every case is run as (a, b) and as (b, a), and the operands are "
            "canonicalised (values and container classes) before and after. non-trivial = report returned")
    trusted_base = [
        "the oracle's reading of reported xpaths (harness/props/compare_common.py parse_path / resolve): '/key', '[i]', '[i]<>[j]' on plain key names",
    ]
    assumptions = ["operands built by n0dict.convert_recursively; plain key names; ASCII text; floats are halves"]
    streams = {"cmp": CC.STREAM}
    case_timeout = 10

    def setup(self):
        self.impl = CC.Impl()

    def teardown(self):
        if getattr(self, "impl", None):
            self.impl.reset_flags()

    def generate(self, rng, tier):
        quick = tier == "quick"
        out = []
        for _ in range(600 if quick else 24000):
            kind = list if rng.random() < 0.12 else dict
            a, b = CC.gen_pair(rng, rng.choice([2, 3, 4, 4]), kind, edits=rng.choice([0, 1, 1, 2, 3, 4]))
            st = CC.gen_setters(rng)
            for walk in ("direct", "compare"):
                out.append({"stream": "cmp", "tag": "rnd:" + walk, "input": {"a": a, "b": b, "walk": walk, "setters": st}})
        for _ in range(400 if quick else 16000):
            xs, ys, ck = CC.gen_record_lists(rng, lists=rng.random() < 0.5)
            a, b, loc = CC.enclose(rng, xs, ys)
            inp = {"a": a, "b": b, "walk": "compare", "ck": ck, "setters": CC.gen_setters(rng)}
            if rng.random() < 0.2:
                # plain dictionaries stored into the records after the conversion, the same on both sides
                inp["wa"] = inp["wb"] = "graft"
            out.append({"stream": "cmp", "tag": "keyed" + (":graft" if "wa" in inp else ""), "input": inp})
        # "the reported pair of ORIGINAL values": a transform decides equality only, the entries show what the operands hold
        # - also when the transformed values are of different types (a number against a placeholder text)
        pairs = [("12", "n/a"), ("7", "x"), ("n/a", "3"), ("5", "6"), ("5", "5.0"), ("a", "B"), (2.5, "x"), ("Ab", 3.5), (1.5, 2.5),
                 ("Ab", "ab"), (None, "4"), ("8", None)]
        for _ in range(150 if quick else 6000):
            a, b = CC.gen_pair(rng, rng.choice([2, 3]), dict, edits=rng.choice([0, 1, 2]))
            a, b = copy.deepcopy(a), copy.deepcopy(b)
            spots = [p for p in CC.positions(a) if isinstance(CC.resolve(a, p), dict) and isinstance(CC.resolve(b, p), dict)]
            da, db = [(CC.resolve(a, p), CC.resolve(b, p)) for p in [rng.choice(spots)]][0]
            da["T"], db["T"] = rng.choice(pairs)
            tr = [[rng.choice(["//T", "//t", "T"]), rng.choice([["num"], ["num"], ["round"], ["lower"], ["cs", "ab"]])]]
            st = CC.gen_setters(rng) if rng.random() < 0.4 else []
            for walk in ("direct", "compare"):
                out.append({"stream": "cmp", "tag": "tr:" + walk, "input": {"a": a, "b": b, "walk": walk, "setters": st, "tr": copy.deepcopy(tr)}})
        # ---- systematic: with the places switched off the unique lists hold bare values; different nodes that miss the SAME
        #      value each contribute their own entry (and their own line of 'differences')
        for _ in range(20 if quick else 500):
            val = rng.choice(["sale", 1, True, None, 2.5])
            n = rng.randint(2, 4)
            names = rng.sample(["p", "q", "r", "s", "t"], n)
            a = {k: {"tag": val, "z": 1} for k in names}
            b = {k: {"z": 1} for k in names}
            if rng.random() < 0.5:
                a["l"], b["l"] = [val] * rng.randint(1, 3) + ["x"], ["x"]
            if rng.random() < 0.5:
                a, b = b, a
            st = [["place", False]] + (CC.gen_setters(rng) if rng.random() < 0.3 else [])
            st = [x for x in st if x[0] != "place"] + [["place", False]]
            for walk in ("direct", "compare"):
                out.append({"stream": "cmp", "tag": "sys:noplace:" + walk, "input": {"a": a, "b": b, "walk": walk, "setters": st}})
        return out

    def valid(self, case):
        i = case.get("input")
        return (CC.valid_input(i) and not i.get("only") and not i.get("excl")
                and i.get("wa", "conv") in ("conv", "graft") and i.get("wb", "conv") in ("conv", "graft"))

    def run_impl(self, case):
        i = case["input"]

        def extra(A, B, obs):
            i2 = dict(i, a=i["b"], b=i["a"])
            rep2, exc2 = self.impl.compare(B, A, i2)
            obs["swap"] = rep2 if exc2 is None else {"raise": "%s: %s" % (type(exc2).__name__, str(exc2)[:120])}
        return CC.observe(self.impl, i, extra)

    def coq_input(self, case):
        return CC.cin_lit(self.impl, case["input"])

    # ---- the property on the implementation -----------------------------------------------
    def faithful(self, i, rep, a, b):
        ck = i.get("ck")
        direct = i["walk"] == "direct"
        n_struct = len(rep["ne"]) + len(rep["su"]) + len(rep["ou"]) + len(rep["dt"] or [])
        if rep["n"] != n_struct:
            return "'differences' has %d line(s) for %d structured entries" % (rep["n"], n_struct)
        for p, l, r in rep["ne"]:
            pp = CC.parse_path(p)
            if pp is None:
                return "not_equal xpath %r is not of the form /key, [i], [i]<>[j]" % p
            lv, rv = CC.resolve(a, pp[0]), CC.resolve(b, pp[1])
            if lv is CC.MISSING or rv is CC.MISSING:
                return "not_equal xpath %r does not resolve in %s" % (p, "self" if lv is CC.MISSING else "other")
            if L.erase_tags(L.canon(lv)) != L.erase_tags(l) or L.erase_tags(L.canon(rv)) != L.erase_tags(r):
                return "not_equal entry %r reports (%r, %r) but the operands hold (%r, %r)" % (p, CC.plain(l), CC.plain(r), lv, rv)
            if CC.teq(lv, rv):
                return "not_equal entry %r reports two equal values %r" % (p, lv)
        for side, lst, mine, theirs, pick in (("self", rep["su"], a, b, 0), ("other", rep["ou"], b, a, 1)):
            for p, v in lst:
                if p is None:
                    continue
                pp = CC.parse_path(p)
                if pp is None or not pp[0]:
                    return "%s_unique xpath %r is not of the form /key, [i], [i]<>[j]" % (side, p)
                # the prefix names the two containers (left index for self, right for other); the last step is on one side
                pre_m, pre_t = (pp[0][:-1], pp[1][:-1]) if pick == 0 else (pp[1][:-1], pp[0][:-1])
                last = pp[0][-1]
                cont_m, cont_t = CC.resolve(mine, pre_m), CC.resolve(theirs, pre_t)
                got = CC.resolve(cont_m, [last]) if cont_m is not CC.MISSING else CC.MISSING
                if got is CC.MISSING or L.erase_tags(L.canon(got)) != L.erase_tags(v):
                    return "%s_unique entry %r reports %r but %s holds %r there" % (side, p, CC.plain(v), side, None if got is CC.MISSING else got)
                if isinstance(last, str):
                    if isinstance(cont_t, dict) and last in cont_t:
                        return "%s_unique entry %r: the key is present on the other side" % (side, p)
                elif direct:
                    if isinstance(cont_t, list) and last < len(cont_t):
                        return "%s_unique entry %r: the other list has an item at that index" % (side, p)
                else:
                    if isinstance(cont_t, list) and isinstance(cont_m, list):
                        k = item_key(got, ck)
                        if sum(1 for x in cont_m if item_key(x, ck) == k) <= sum(1 for x in cont_t if item_key(x, ck) == k):
                            return "%s_unique entry %r: the other list has as many items %r" % (side, p, got)
        return None

    def oracle(self, case, obs):
        i = case["input"]
        if not obs.get("pure", True):
            return "an operand was modified by the comparison"
        if "raise" in obs:
            return "the comparison raised %s" % obs.get("exc", obs["raise"])
        rep = obs["rep"]
        f = self.faithful(i, rep, i["a"], i["b"])
        if f:
            return f
        sw = obs.get("swap")
        if sw is not None:
            if "raise" in sw:
                return "the comparison with swapped operands raised %s" % sw["raise"]
            e = lambda v: repr(L.erase_tags(v))
            m = lambda p: None if p is None else mirror_path(p)
            if sorted((m(p), e(v)) for p, v in rep["su"]) != sorted((p, e(v)) for p, v in sw["ou"]):
                return "self_unique %s is not other_unique of the swapped comparison %s" % (rep["su"], sw["ou"])
            if sorted((m(p), e(v)) for p, v in rep["ou"]) != sorted((p, e(v)) for p, v in sw["su"]):
                return "other_unique %s is not self_unique of the swapped comparison %s" % (rep["ou"], sw["su"])
            if sorted((m(p), e(r), e(l)) for p, l, r in rep["ne"]) != sorted((p, e(l), e(r)) for p, l, r in sw["ne"]):
                return "not_equal %s is not mirrored by the swapped comparison %s" % (rep["ne"], sw["ne"])
            if sw["n"] != rep["n"]:
                return "swapped comparison reports %d difference(s), original %d" % (sw["n"], rep["n"])
        return None

    @staticmethod
    def cl_str_keys(case, obs, failure):
        i = case["input"]
        return i["walk"] == "compare" and "raise" not in obs and not CC.keys_ok(i["a"], i["b"], i.get("ck"))

    classifiers = {"str_keys": cl_str_keys.__func__}


PROP = C09
