"""C16 — positional record codecs (TLV, fixed-width): round-trip, refuse, terminate."""
import itertools
import os
import shutil
import tempfile

from n0v import coqlit as L
from n0v.core import Prop

TAG_AL = ["0", "1", "9", "a", "Z", " ", "-", "é"]
VAL_AL = ["0", "5", "a", "b", "-", "+", " ", "é", "€", "\n"]
PARSE_AL = ["0", "1", "2", "5", "9", "-", "+", " ", "a", "x"]
TAG_PADS = [" ", "0", "x", "_", " "]
LEN_PADS = ["0", " ", "0", " ", "0", "-", "+", "x", "1", "_"]
GOOD_LEN_PADS = ("0", " ")
FWF_NAMES = ["A", "B", "C", "D", "E", "F"]
FWF_AL = ["a", "Z", "0", "7", " ", "-", "+", "é", "."]
FILLERS = [" ", " ", " ", "0", ".", "*", "ab", "<>", ""]
RULES = {"isdigit": "column_value.isdigit()", "notblank": "column_value.strip() != ''"}


def rule_text(r):
    if r[0] == "rowlen":
        return "len(row) >= %d" % r[1]
    if r[0] == "const":
        return "True" if r[1] else "False"
    return RULES[r[0]]


def py_gfmt(cols):
    out = []
    for c in cols:
        d = {"name": c["name"], "offset": c["offset"], "size": c["size"], "till": c["till"]}
        if c["type"] == "int":
            d["type"] = "int"
        out.append(d)
    return out


def py_pfmt(fmt):
    if fmt is None:
        return None
    out = {}
    for c in fmt:
        # "kn": the spelling the library's own format loader produces - all three keys present, None for the missing one
        d = {k: c[k] for k in ("offset", "width", "till") if c[k] is not None or (c.get("kn") and k != "offset")}
        if c["valid"]:
            d["validations"] = [rule_text(r) for r in c["valid"]]
        d["error_message"] = c["msg"]
        out[c["name"]] = d
    return out


def ref_row_valid(row, fmt):
    """independent reading of the validation vocabulary"""
    for c in fmt:
        t = c["till"] if c["till"] is not None else (c["offset"] + c["width"] if c["width"] is not None else None)
        v = row[c["offset"]:t] if t is not None else None
        for r in c["valid"]:
            if r[0] == "isdigit":
                ok = v is not None and v != "" and all(ch in "0123456789" for ch in v)
            elif r[0] == "notblank":
                ok = v is not None and v.strip() != ""
            elif r[0] == "rowlen":
                ok = len(row) >= r[1]
            else:
                ok = bool(r[1])
            if not ok:
                return False
    return True


def layout_clean(cols, filler):
    if len(filler) < 1 or not cols or len({c["name"] for c in cols}) != len(cols):
        return False
    if any(c["till"] != c["offset"] + c["size"] for c in cols):
        return False
    iv = sorted((c["offset"], c["till"]) for c in cols if c["size"])
    return all(a[1] <= b[0] for a, b in zip(iv, iv[1:]))


def fits(tw, lw, m):
    return all(len(t) <= tw and len(str(len(v))) <= lw for t, v in m)


class NonTerminating(Exception):
    pass


class C16(Prop):
    id = "C16"
    props_file = "Props/C16.v"
    refuted_file = "Refuted/C16.v"
    case_timeout = 2
    rule = ("TLV: str->str mappings (0..4 entries, tags of length 0..width+1, values of length around the powers of ten "
            "that bound the length field) x tag/len widths 0..4 x tag paddings x length paddings ('0',' ' and unreasonable ones), "
            "each through generate_tlv alone and through parse_tlv(generate_tlv()); an exhaustive small scope of the same; "
            "parser inputs: all strings up to a length bound over {digits, sign, blank, letter} for 6 width pairs, random longer "
            "strings, and generated strings with one character changed/dropped/inserted (each parse is cut off as soon as it "
            "yields more triplets than the input has characters, and runs under a 2 s alarm). "
            "non-trivial = returned a value (no exception); distinct = distinct (stream, input)")
    trusted_base = [
        "int(str) on ASCII input and str(int), str.ljust/rjust/zfill: modelled in Codec/Util.v + Base/PyStr.v "
        "(int() accepts blanks 9-13/32, one sign, digits with single inner underscores), validated by correspondence",
    ]
    assumptions = [
        "field widths are non-negative (quantifier: 0..4); paddings are single characters; mapping keys/values are str",
        "round-trip is demanded for length paddings '0' and ' ' (what int() can read back); for other length paddings only "
        "refusal, termination and tiling are demanded",
        "code points >= 128 inside a TLV length field are outside the int() model (Unmodelled, counted)",
    ]
    cfg_t = "tlv_cfg * list (pstr * pstr)"
    streams = {
        "tlv_gen": dict(requires=["Codec.Util", "Codec.Tlv"], itype=cfg_t, model="obs_tlv_gen"),
        "tlv_rt": dict(requires=["Codec.Util", "Codec.Tlv"], itype=cfg_t, model="obs_tlv_rt"),
        "tlv_parse": dict(requires=["Codec.Util", "Codec.Tlv"], itype="(nat * nat) * pstr", model="obs_tlv_parse"),
        "fwf_gen": dict(requires=["Codec.Util", "Codec.Fwf"], itype="fwf_gen_in", model="obs_fwf_gen"),
        "fwf_rt": dict(requires=["Codec.Util", "Codec.Fwf"], itype="fwf_gen_in", model="obs_fwf_rt"),
        "fwf_parse": dict(requires=["Codec.Util", "Codec.Fwf"], itype="(pstr * list pcol) * bool", model="obs_fwf_parse"),
        "fwf_load": dict(requires=["Codec.Util", "Codec.Fwf"], itype="fwf_load_in", model="obs_fwf_load"),
    }

    def setup(self):
        import n0struct
        self.gen_tlv = n0struct.generate_tlv
        self.parse_tlv = n0struct.parse_tlv
        self.gen_fwf = n0struct.generate_fwf_row
        self.parse_fwf = n0struct.parse_fwf_row
        self.load_fwf = n0struct.load_fwf
        self.tmp = tempfile.mkdtemp(prefix="n0v-")

    def teardown(self):
        shutil.rmtree(getattr(self, "tmp", ""), ignore_errors=True)

    # ---- generation -----------------------------------------------------------
    def _mapping(self, rng, tw, lw):
        m, seen = [], set()
        lens = [0, 1, 2, 5, 9, 10, 11, 12, 99, 100, 101]
        if lw >= 3:
            lens += [999, 1000, 1001]
        for _ in range(rng.choice([0, 1, 1, 2, 3, 4])):
            tl = rng.choice([tw, tw, max(tw - 1, 0), 0, tw + 1] if rng.random() < 0.25 else [tw, tw, max(tw - 1, 0), 0])
            t = "".join(rng.choice(TAG_AL) for _ in range(tl))
            if t in seen:
                continue
            seen.add(t)
            if lw and rng.random() < 0.8:
                bound = 10 ** lw
                vl = rng.choice([x for x in lens if x < bound] + [0, 1, 3])
            else:
                vl = rng.choice([x for x in lens if x <= 10 ** min(lw + 1, 3) + 1])
            v = "".join(rng.choice(VAL_AL) for _ in range(vl))
            m.append([t, v])
        return m

    def _both(self, out, tag, inp):
        out.append({"stream": "tlv_gen", "tag": tag + ":gen", "input": inp})
        out.append({"stream": "tlv_rt", "tag": tag + ":rt", "input": inp})

    def generate(self, rng, tier):
        quick = tier == "quick"
        out = []
        # (1) exhaustive small scope of mappings
        tags = ["", "a", "ab", "abc"]
        vlens = [0, 1, 9, 10, 99, 100]
        for tw in (0, 1, 2):
            for lw in (0, 1, 2):
                ent = [[t, "v" * n] for t in tags for n in vlens]
                ms = [[]] + [[e] for e in ent]
                pairs = [[a, b] for a in ent for b in ent if a[0] != b[0]]
                ms += rng.sample(pairs, 12 if quick else 150)
                for m in ms:
                    tp, lp = rng.choice(TAG_PADS), rng.choice(["0", " "])
                    self._both(out, "exh", {"tw": tw, "lw": lw, "tp": tp, "lp": lp, "m": m})
        # (2) random mappings
        for _ in range(500 if quick else 12000):
            tw, lw = rng.randint(0, 4), rng.choice([0, 1, 2, 3, 3, 4])
            inp = {"tw": tw, "lw": lw, "tp": rng.choice(TAG_PADS), "lp": rng.choice(LEN_PADS), "m": self._mapping(rng, tw, lw)}
            self._both(out, "rnd", inp)
        # the 4-digit length field boundary (10000 characters): refuse / accept
        for n in ([9999, 10000] if quick else [9999, 10000, 10001, 99999, 100000]):
            for lw in (4, 5) if not quick else (4,):
                self._both(out, "big", {"tw": 1, "lw": lw, "tp": " ", "lp": "0", "m": [["k", "v" * n]]})
        # (3) parser inputs, exhaustive small scope
        al = ["0", "1", "2", "-", "+", " ", "a"]
        maxlen = 3 if quick else 5
        for (tw, lw) in [(0, 1), (1, 1), (0, 2), (1, 2), (2, 1), (0, 0)]:
            for n in range(0, maxlen + 1):
                for tup in itertools.product(al, repeat=n):
                    out.append({"stream": "tlv_parse", "tag": "exh:parse", "input": {"tw": tw, "lw": lw, "s": "".join(tup)}})
        # (4) random parser inputs
        for _ in range(700 if quick else 20000):
            tw, lw = rng.randint(0, 4), rng.randint(0, 4)
            k = rng.random()
            if k < 0.5:
                s = "".join(rng.choice(PARSE_AL) for _ in range(rng.choice([1, 2, 3, 5, 8, 12, 20])))
                tag = "rnd:parse"
            else:
                # a well-formed buffer, then one edit
                lw = max(lw, 1)
                m = [[t, v] for t, v in self._mapping(rng, tw, lw) if len(t) <= tw and len(str(len(v))) <= lw and len(v) < 30]
                try:
                    s = self.gen_tlv(dict(m), tw, lw, " ", rng.choice(["0", " "]))
                except Exception:
                    s = "0" * (tw + lw)
                if s and k < 0.9:
                    p = rng.randrange(len(s))
                    e = rng.random()
                    c = rng.choice(PARSE_AL)
                    s = s[:p] + c + s[p + 1:] if e < 0.5 else (s[:p] + s[p + 1:] if e < 0.75 else s[:p] + c + s[p:])
                tag = "mut:parse"
            out.append({"stream": "tlv_parse", "tag": tag, "input": {"tw": tw, "lw": lw, "s": s}})
        self._gen_fwf(rng, quick, out)
        return out

    # fixed-width ------------------------------------------------------------------
    def _layout(self, rng, clean):
        cols, cur = [], rng.choice([0, 0, 1, 3])
        names = rng.sample(FWF_NAMES, rng.choice([1, 2, 3, 3, 4, 5]))
        for nm in names:
            size = rng.choice([0, 1, 2, 3, 4, 6])
            col = {"name": nm, "offset": cur, "size": size, "till": cur + size, "type": rng.choice(["int", "str", "str"])}
            if not clean:
                k = rng.random()
                if k < 0.3:
                    col["till"] = max(0, col["till"] + rng.choice([-1, 1, 2]))
                elif k < 0.5:
                    col["offset"] = max(0, cur - rng.choice([1, 2]))
                    col["till"] = col["offset"] + size
                elif k < 0.6 and cols:
                    col["name"] = cols[0]["name"]
            cols.append(col)
            cur = cur + size + rng.choice([0, 0, 1, 2])
        if rng.random() < 0.4:
            rng.shuffle(cols)
        return cols

    def _record(self, rng, cols):
        rec = []
        for c in {c["name"]: c for c in cols}.values():
            if rng.random() < 0.2:
                continue
            k = rng.random()
            if k < 0.5:
                v = "".join(rng.choice(FWF_AL) for _ in range(rng.choice([0, 1, c["size"], c["size"], c["size"] + 2])))
            elif k < 0.9:
                v = rng.choice([0, 5, 12, -7, 123456, -123456, 10 ** 12, rng.randint(-999, 9999)])
                if rng.random() < 0.3:
                    v = str(v) if rng.random() < 0.6 else "+" + str(abs(v))
            else:
                v = rng.choice([None, True, False])
            rec.append([c["name"], v])
        if rng.random() < 0.15:
            rec.append(["ZZ", "unused"])
        return rec

    def _pfmt(self, rng, with_none):
        fmt, cur = [], 0
        for nm in rng.sample(FWF_NAMES, rng.choice([1, 2, 3, 4])):
            w = rng.choice([0, 1, 2, 3, 4])
            col = {"name": nm, "offset": cur, "width": w, "till": None, "valid": [], "msg": rng.choice(["bad " + nm, "E", ""])}
            k = rng.random()
            if k < 0.2:
                col["width"], col["till"] = None, cur + w
            elif k < 0.3:
                col["till"] = cur + rng.choice([0, 1, 5])          # till wins over width
            elif with_none and k < 0.4:
                col["offset"] = None
            elif with_none and k < 0.45:
                col["width"] = None
            for _ in range(rng.choice([0, 0, 1, 1, 2, 3])):
                col["valid"].append(rng.choice([["isdigit"], ["isdigit"], ["notblank"], ["rowlen", rng.choice([0, 3, 8, 12])],
                                                ["const", True], ["const", False]]))
            if rng.random() < 0.3:
                col["kn"] = True
            fmt.append(col)
            cur += w + rng.choice([0, 0, 1])
        return fmt

    def _line(self, rng, fmt):
        """a row that mostly satisfies fmt"""
        n = max([(c["offset"] or 0) + (c["width"] or 0) for c in fmt] + [c["till"] or 0 for c in fmt])
        row = [rng.choice(["a", "b", " ", "x"]) for _ in range(n + rng.choice([0, 0, 2]))]
        for c in fmt:
            if c["offset"] is None:
                continue
            t = c["till"] if c["till"] is not None else (c["offset"] + c["width"] if c["width"] is not None else c["offset"])
            for p in range(c["offset"], min(t, len(row))):
                if ["isdigit"] in c["valid"] and rng.random() < 0.93:
                    row[p] = rng.choice("0123456789")
        k = rng.random()
        if k < 0.1:
            return ""
        if k < 0.2:
            return "".join(row)[:rng.randrange(len(row) + 1)]
        return "".join(row)

    def _gen_fwf(self, rng, quick, out):
        for _ in range(700 if quick else 15000):
            clean = rng.random() < 0.7
            cols = self._layout(rng, clean)
            filler = rng.choice(FILLERS if not clean else FILLERS[:8])
            inp = {"rec": self._record(rng, cols), "cols": cols, "filler": filler}
            st = rng.choice(["fwf_rt", "fwf_rt", "fwf_gen"])
            out.append({"stream": st, "tag": "rnd:%s:%s" % (st, "clean" if clean else "dirty"), "input": inp})
        out.append({"stream": "fwf_gen", "tag": "edge:fwf_gen", "input": {"rec": [], "cols": [], "filler": " "}})
        for _ in range(350 if quick else 8000):
            fmt = self._pfmt(rng, True)
            row = self._line(rng, fmt) if rng.random() < 0.7 else "".join(rng.choice(FWF_AL) for _ in range(rng.choice([0, 3, 8, 15])))
            out.append({"stream": "fwf_parse", "tag": "rnd:fwf_parse",
                        "input": {"row": row, "fmt": fmt, "validate": rng.random() < 0.8}})
        out.append({"stream": "fwf_parse", "tag": "edge:fwf_parse", "input": {"row": "abc", "fmt": [], "validate": True}})
        for _ in range(300 if quick else 6000):
            hdr = self._pfmt(rng, False)
            body = self._pfmt(rng, False) if rng.random() < 0.3 else None
            footer = self._pfmt(rng, False) if rng.random() < 0.2 else None
            if rng.random() < 0.05:
                body = []
            lines = [self._line(rng, rng.choice([f for f in (hdr, body, footer) if f])) for _ in range(rng.choice([0, 1, 2, 3, 4, 6]))]
            if lines and rng.random() < 0.2:
                # characters that str.splitlines() treats as line boundaries but a text file does not (VT, FF, FS, GS, RS, NEL)
                j = rng.randrange(len(lines))
                if lines[j]:
                    k = rng.randrange(len(lines[j]))
                    lines[j] = lines[j][:k] + rng.choice(["\x0b", "\x0c", "\x1c", "\x1d", "\x1e", "\x85"]) + lines[j][k + 1:]
            out.append({"stream": "fwf_load", "tag": "rnd:fwf_load",
                        "input": {"lines": lines, "hdr": hdr, "body": body, "footer": footer,
                                  "validate": rng.random() < 0.85, "orig": rng.choice([None, "_raw", "_raw", "A"])}})

    def valid(self, case):
        i = case["input"]
        if not (isinstance(i.get("tw"), int) and isinstance(i.get("lw"), int) and 0 <= i["tw"] <= 6 and 0 <= i["lw"] <= 6):
            return False
        if case["stream"] in ("tlv_gen", "tlv_rt"):
            if len(i.get("tp", "")) != 1 or len(i.get("lp", "")) != 1:
                return False
            m = i.get("m")
            return isinstance(m, list) and all(isinstance(e, list) and len(e) == 2 for e in m) and len({e[0] for e in m}) == len(m)
        if case["stream"].startswith("fwf_"):
            return self._valid_fwf(case)
        return isinstance(i.get("s"), str)

    def _valid_fwf(self, case):
        i, st = case["input"], case["stream"]
        nat = lambda x: isinstance(x, int) and not isinstance(x, bool) and x >= 0

        def pf(fmt):
            return isinstance(fmt, list) and len({c.get("name") for c in fmt}) == len(fmt) and all(
                isinstance(c.get("name"), str) and isinstance(c.get("msg"), str)
                and all(c.get(k) is None or nat(c.get(k)) for k in ("offset", "width", "till"))
                and all(r and r[0] in ("isdigit", "notblank", "rowlen", "const") and (r[0] != "rowlen" or nat(r[1]))
                        and (r[0] != "const" or isinstance(r[1], bool)) for r in c.get("valid", [])) for c in fmt)
        if st in ("fwf_gen", "fwf_rt"):
            return (isinstance(i.get("filler"), str) and all(nat(c.get(k)) for c in i["cols"] for k in ("offset", "size", "till"))
                    and all(c.get("type") in ("int", "str") and isinstance(c.get("name"), str) for c in i["cols"])
                    and len({e[0] for e in i["rec"]}) == len(i["rec"]) and all(len(e) == 2 for e in i["rec"]))
        if st == "fwf_parse":
            return isinstance(i.get("row"), str) and pf(i.get("fmt"))
        if st == "fwf_load":
            return (all(isinstance(l, str) and "\n" not in l and "\r" not in l for l in i["lines"]) and pf(i["hdr"])
                    and (i["body"] is None or pf(i["body"])) and (i["footer"] is None or pf(i["footer"])))
        return False

    # ---- implementation ------------------------------------------------------------
    def _parse(self, s, tw, lw):
        res = []
        for x in self.parse_tlv(s, tw, lw):
            res.append(x)
            if len(res) > len(s) + 1:
                raise NonTerminating()
        return res

    def run_impl(self, case):
        i, st = case["input"], case["stream"]
        try:
            if st == "tlv_gen":
                return {"ok": L.canon(self.gen_tlv(dict(map(tuple, i["m"])), i["tw"], i["lw"], i["tp"], i["lp"]))}
            if st == "tlv_rt":
                s = self.gen_tlv(dict(map(tuple, i["m"])), i["tw"], i["lw"], i["tp"], i["lp"])
                return {"ok": L.canon(self._parse(s, i["tw"], i["lw"]))}
            if st == "tlv_parse":
                return {"ok": L.canon(self._parse(i["s"], i["tw"], i["lw"]))}
            if st == "fwf_gen":
                return {"ok": L.canon(self.gen_fwf(dict(map(tuple, i["rec"])), py_gfmt(i["cols"]), i["filler"]))}
            if st == "fwf_rt":
                row = self.gen_fwf(dict(map(tuple, i["rec"])), py_gfmt(i["cols"]), i["filler"])
                pf = {c["name"]: {"offset": c["offset"], "width": c["size"]} for c in i["cols"]}
                return {"ok": L.canon(self.parse_fwf(row, pf))}
            if st == "fwf_parse":
                return {"ok": L.canon(self.parse_fwf(i["row"], py_pfmt(i["fmt"]), i["validate"]))}
            if st == "fwf_load":
                self.nfile = getattr(self, "nfile", 0) + 1
                path = os.path.join(self.tmp, "f%d.fwf" % (self.nfile % 50))
                with open(path, "w", encoding="utf-8", newline="") as fh:
                    fh.write("".join(l + "\n" for l in i["lines"]))
                return {"ok": L.canon(self.load_fwf(path, py_pfmt(i["hdr"]), py_pfmt(i["body"]), py_pfmt(i["footer"]),
                                                    i["validate"], return_original_row=i["orig"]))}
        except NonTerminating:
            return {"timeout": "[cut off: parse_tlv yielded more triplets than the input has characters, it does not terminate] 0"}
        raise ValueError(st)

    @staticmethod
    def _scalar(v):
        if v is None:
            return "SNone"
        if isinstance(v, bool):
            return "SBool %s" % L.boolean(v)
        if isinstance(v, int):
            return "SInt %s" % L.z(v)
        return "SStr %s" % L.pstr(v)

    @staticmethod
    def _gcols(cols):
        return L.lst("{| g_name := %s; g_offset := %s; g_size := %s; g_till := %s; g_int := %s |}"
                     % (L.pstr(c["name"]), L.nat(c["offset"]), L.nat(c["size"]), L.nat(c["till"]), L.boolean(c["type"] == "int"))
                     for c in cols)

    @staticmethod
    def _rule(r):
        return {"isdigit": "VIsDigit", "notblank": "VNotBlank"}.get(r[0]) or (
            "VRowLenGe %s" % L.nat(r[1]) if r[0] == "rowlen" else "VConst %s" % L.boolean(r[1]))

    def _pcols(self, fmt):
        on = lambda x: L.opt(None if x is None else L.nat(x))
        return L.lst("{| p_name := %s; p_offset := %s; p_width := %s; p_till := %s; p_valid := %s; p_msg := %s |}"
                     % (L.pstr(c["name"]), on(c["offset"]), on(c["width"]), on(c["till"]),
                        L.lst(self._rule(r) for r in c["valid"]), L.pstr(c["msg"])) for c in fmt)

    def coq_input(self, case):
        i, st = case["input"], case["stream"]
        if st in ("fwf_gen", "fwf_rt"):
            rec = L.lst("(%s, %s)" % (L.pstr(k), self._scalar(v)) for k, v in i["rec"])
            return "((%s, %s), %s)" % (rec, self._gcols(i["cols"]), L.pstr(i["filler"]))
        if st == "fwf_parse":
            return "((%s, %s), %s)" % (L.pstr(i["row"]), self._pcols(i["fmt"]), L.boolean(i["validate"]))
        if st == "fwf_load":
            of = lambda f: L.opt(None if f is None else self._pcols(f))
            return "(((((%s, %s), %s), %s), %s), %s)" % (L.strs(i["lines"]), self._pcols(i["hdr"]), of(i["body"]), of(i["footer"]),
                                                      L.boolean(i["validate"]), L.opt(None if not i["orig"] else L.pstr(i["orig"])))
        if st == "tlv_parse":
            return "((%s, %s), %s)" % (L.nat(i["tw"]), L.nat(i["lw"]), L.pstr(i["s"]))
        m = L.lst("(%s, %s)" % (L.pstr(t), L.pstr(v)) for t, v in i["m"])
        return "(((%s, %s), (%d%%N, %d%%N)), %s)" % (L.nat(i["tw"]), L.nat(i["lw"]), ord(i["tp"]), ord(i["lp"]), m)

    # ---- the property on the implementation ------------------------------------
    @staticmethod
    def tiling_failure(s, tw, lw, triplets):
        """None if the triplets tile s left to right without gap or overlap"""
        off = 0
        for k, (t, n, v) in enumerate(triplets):
            if off >= len(s):
                return "triplet %d starts at offset %d, past the end" % (k, off)
            if t != s[off:off + tw]:
                return "triplet %d: tag %r is not input[%d:%d]" % (k, t, off, off + tw)
            lf = s[off + tw:off + tw + lw]
            try:
                ok = int(lf) == n
            except ValueError:
                ok = False
            if not ok:
                return "triplet %d: length %r is not the length field %r" % (k, n, lf)
            if n < 0:
                return "triplet %d: negative length %d (the next triplet overlaps)" % (k, n)
            if v != s[off + tw + lw:off + tw + lw + n]:
                return "triplet %d: value %r is not input[%d:%d]" % (k, v, off + tw + lw, off + tw + lw + n)
            off += tw + lw + n
        if off < len(s):
            return "input[%d:] is not covered by any triplet" % off
        return None

    def _oracle_fwf(self, case, obs):
        i, st = case["input"], case["stream"]
        if st == "fwf_rt":
            cols, filler = i["cols"], i["filler"]
            if not layout_clean(cols, filler):
                return None
            if "raise" in obs:
                return "parse_fwf_row(generate_fwf_row(record)) raised %s" % obs.get("exc")
            rec = dict(map(tuple, i["rec"]))
            want = {}
            for c in cols:
                if c["name"] in rec:
                    t = str(rec[c["name"]])
                    want[c["name"]] = (t.zfill(c["size"]) if c["type"] == "int" else t.ljust(c["size"]))[:c["size"]]
                elif len(filler) == 1:
                    want[c["name"]] = filler * c["size"]
            got = L.uncanon(obs["ok"])
            if len(filler) > 1 and isinstance(got, dict):
                # a filler of several characters: the columns the record has still sit at their offsets; what an absent
                # column reads (some rotation of the filler) is left open
                got = {k: v for k, v in got.items() if k in want}
            if got != want:
                bad = [k for k in want if not isinstance(got, dict) or got.get(k) != want[k]]
                return "columns %s parse back to %r, expected %r" % (bad, got, want)
            return None
        if st == "fwf_load" and i["validate"]:
            if "raise" in obs:
                return "load_fwf raised %s" % obs.get("exc")
            res = L.uncanon(obs["ok"])
            if not (isinstance(res, list) and len(res) == 2):
                return "load_fwf(validate=True) did not return (accepted, rejected): %r" % (res,)
            acc, rej = res
            rows = [l for l in i["lines"] if l]
            rej_rows = [r[-2] if isinstance(r, list) and len(r) >= 2 else r for r in rej]
            if not i["body"] and not i["footer"] and all(c["offset"] is not None for c in i["hdr"]):
                # one layout for every row: a row is rejected iff one of its validations fails
                bad = [l for l in rows if not ref_row_valid(l, i["hdr"])]
                if sorted(rej_rows) != sorted(bad):
                    return "rejected rows %r, rows failing a validation %r" % (rej_rows, bad)
            elif (len(rows) >= 2 and len(rows) == len(i["lines"])
                  and all(c["offset"] is not None for fmt in (i["hdr"], i["body"] or [], i["footer"] or []) for c in fmt)):
                # the first line is read with the header layout, the last one with the footer layout, the others with the body
                # layout; an omitted body layout is the header layout, an omitted footer layout is the (resolved) body layout
                body = i["body"] or i["hdr"]
                footer = i["footer"] or body
                lay = [i["hdr"]] + [body] * (len(rows) - 2) + [footer]
                bad = [l for l, fmt in zip(rows, lay) if not ref_row_valid(l, fmt)]
                if sorted(rej_rows) != sorted(bad):
                    return "rejected rows %r, rows failing a validation of their layout (header / body / footer) %r" % (rej_rows, bad)
            if len(acc) + len(rej) != len(rows):
                return "%d accepted + %d rejected rows for %d non-empty lines" % (len(acc), len(rej), len(rows))
            if i["orig"] and all(isinstance(a, dict) and i["orig"] in a for a in acc):
                acc_rows = [a[i["orig"]] for a in acc]
                # each line exactly once, order kept inside both lists: the lines are an interleaving of the two
                # lists (equal lines may sit in either list, so every split is followed, not the greedy one)
                states = {0}
                for k, l in enumerate(rows):
                    nxt = set()
                    for pa in states:
                        pr = k - pa
                        if pa < len(acc_rows) and acc_rows[pa] == l:
                            nxt.add(pa + 1)
                        if pr < len(rej_rows) and rej_rows[pr] == l:
                            nxt.add(pa)
                    if not nxt:
                        return "line %r is neither the next accepted nor the next rejected row (accepted %r, rejected %r)" % (l, acc_rows, rej_rows)
                    states = nxt
            else:
                left = list(rows)
                for r in rej_rows:
                    if r not in left:
                        return "rejected row %r is not a line of the file (or is reported twice)" % (r,)
                    left.remove(r)
            return None
        return None

    def oracle(self, case, obs):
        i, st = case["input"], case["stream"]
        if st.startswith("fwf_"):
            return self._oracle_fwf(case, obs)
        if st == "tlv_parse":
            if "raise" in obs:
                return None if obs["raise"] == "ExValue" else "parse_tlv raised %s (only ValueError is allowed)" % obs.get("exc")
            trip = [(x[2][0][1], x[2][1][1], x[2][2][1]) for x in obs["ok"][2]]
            return self.tiling_failure(i["s"], i["tw"], i["lw"], trip)
        if st in ("tlv_gen", "tlv_rt"):
            tw, lw, m = i["tw"], i["lw"], [tuple(e) for e in i["m"]]
            fit = fits(tw, lw, m)
            if st == "tlv_gen":
                if fit and "raise" in obs:
                    return "generate_tlv refused a mapping that fits the fields: %s" % obs.get("exc")
                if not fit and "ok" in obs:
                    return "generate_tlv emitted %r for a mapping that does not fit (tag width %d, length width %d)" % (obs["ok"][1][:60], tw, lw)
                if fit:
                    want_len = sum(tw + lw + len(v) for _, v in m)
                    if len(obs["ok"][1]) != want_len:
                        return "generated string has %d characters, %d entries of %d+%d+len(value) need %d" % (len(obs["ok"][1]), len(m), tw, lw, want_len)
                return None
            if not fit:
                return None          # the tlv_gen case with the same input demands the refusal
            if "raise" in obs:
                if i["lp"] in GOOD_LEN_PADS:
                    return "parse_tlv(generate_tlv(m)) raised %s" % obs.get("exc")
                return None if obs["raise"] == "ExValue" else "parse_tlv(generate_tlv(m)) raised %s" % obs.get("exc")
            trip = [(x[2][0][1], x[2][1][1], x[2][2][1]) for x in obs["ok"][2]]
            if i["lp"] in GOOD_LEN_PADS:
                want = [(t.ljust(tw, i["tp"]), len(v), v) for t, v in m]
                if trip != want:
                    return "parsed %r, expected %r" % (trip[:4], want[:4])
                return None
            # unreasonable length padding: only termination + tiling of whatever was emitted
            try:
                s = self.gen_tlv(dict(m), tw, lw, i["tp"], i["lp"])
            except Exception:
                return None
            return self.tiling_failure(s, tw, lw, trip)
        return None


PROP = C16
