"""C02 — assigning through an xpath to an existing node changes exactly that node."""
import copy

from n0v import coqlit as L
from n0v.core import Prop
from props import xpath_common as X


def gen_value(rng):
    return X.gen_tree(rng, 2) if rng.random() < 0.35 else X.gen_leaf(rng)


class C02(Prop):
    id = "C02"
    props_file = "Props/C02.v"
    rule = ("random dict-rooted trees (convert / wrap / json construction) x histories of 1..8 assignments, each to a node that "
            "exists when it is applied (leaf or inner; by key, index, negative index, last(), i+j), values scalar or container; "
            "the whole tree (class tags included) is compared with the model after the history and with a plain reference "
            "update after every step. non-trivial = no exception; distinct = distinct (tree, history)")
    trusted_base = ["reference semantics of 'plain nested dict/list that applied the same writes': harness (xpath_common.ref_set)"]
    streams = {"ops": X.OPS_STREAM}

    def valid(self, case):
        return False

    def generate(self, rng, tier):
        n = 1200 if tier == "quick" else 15000
        out = []
        for _ in range(n):
            t = X.gen_tree(rng, rng.choice([2, 3, 4]), root="dict")
            mode = rng.choice(["convert", "convert", "wrap", "json"])
            cur = copy.deepcopy(t)
            ops, paths = [], []
            for _ in range(rng.randint(1, 8)):
                nodes = list(X.node_paths(cur))
                if not nodes:
                    break
                path, _v = rng.choice(nodes)
                v = gen_value(rng)
                ops.append(["set", X.render(cur, path, rng), v] + (["plain"] if isinstance(v, (dict, list)) and rng.random() < 0.4 else []))
                paths.append(list(path))
                cur = X.ref_set(cur, path, v)
            if ops:
                out.append({"stream": "ops", "tag": "hist:%d" % len(ops), "input": {"tree": t, "mode": mode, "ops": ops, "paths": paths}})
        # the same xpath string written twice with an ancestor of its slot replaced in between (a container that still has the
        # path): the second write lands in the tree as it is now, not in the detached old parent
        for _ in range(80 if tier == "quick" else 2000):
            t = X.gen_tree(rng, rng.choice([3, 4]), root="dict")
            deep = [(p, v) for p, v in X.node_paths(t) if len(p) >= 2]
            if not deep:
                continue
            path, _v = rng.choice(deep)
            xp = X.render(t, path, rng)
            cut = rng.randint(1, len(path) - 1)
            anc = path[:cut]
            cur = copy.deepcopy(t)
            ops, paths = [], []
            v1 = gen_value(rng)
            ops.append(["set", xp, v1]); paths.append(list(path)); cur = X.ref_set(cur, path, v1)
            repl = copy.deepcopy(X.plain_get(cur, anc))          # same shape, fresh object
            ops.append(["set", X.render(cur, anc, rng), repl] + (["plain"] if rng.random() < 0.4 else [])); paths.append(list(anc))
            cur = X.ref_set(cur, anc, repl)
            v2 = gen_value(rng)
            ops.append(["set", xp, v2]); paths.append(list(path)); cur = X.ref_set(cur, path, v2)
            out.append({"stream": "ops", "tag": "rewrite-after-replace", "input": {"tree": t, "mode": rng.choice(["convert", "convert", "wrap", "json"]),
                                                                                   "ops": ops, "paths": paths}})
        # long paths: an existing node 20 .. 120 steps down (dictionary and list levels mixed), overwritten at the bottom and
        # at some inner depths - the number of steps of a path has no limit
        for _ in range(6 if tier == "quick" else 60):
            depth = rng.choice([20, 64, 65, 66, 90, 120])
            leaf = rng.choice([1, "x", None])
            t, path = leaf, []
            for lvl in range(depth):
                if rng.random() < 0.3:
                    pre = [rng.choice([0, "p"]) for _ in range(rng.randint(0, 2))]
                    t = pre + [t]
                    path.insert(0, len(pre))
                else:
                    k = rng.choice(["d", "e", "k1"])
                    t = {k: t, "s": lvl} if rng.random() < 0.5 else {k: t}
                    path.insert(0, k)
            if not isinstance(t, dict):
                t = {"top": t}
                path.insert(0, "top")
            cur = copy.deepcopy(t)
            ops, paths = [], []
            for cut in [len(path)] + sorted(rng.sample(range(1, len(path)), 2), reverse=True):
                sub = path[:cut]
                v = gen_value(rng)
                ops.append(["set", X.render(cur, sub, rng), v]); paths.append(list(sub))
                cur = X.ref_set(cur, sub, v)
            out.append({"stream": "ops", "tag": "deep:%d" % depth, "input": {"tree": t, "mode": rng.choice(["convert", "wrap", "json"]),
                                                                            "ops": ops, "paths": paths}})
        # raw data with tuples where the lists are: writes to dictionary entries that lie below tuple elements
        for _ in range(60 if tier == "quick" else 1500):
            t = X.gen_tree(rng, rng.choice([3, 4]), root="dict")
            cur = copy.deepcopy(t)
            ops, paths = [], []
            for _ in range(rng.randint(1, 3)):
                cands = [(p_, v_) for p_, v_ in X.node_paths(cur) if isinstance(p_[-1], str) and any(isinstance(st, int) for st in p_)]
                if not cands:
                    break
                path, _v = rng.choice(cands)
                v = rng.choice([1, "x", None, 2.5, True])
                ops.append(["set", X.render(cur, path, rng), v]); paths.append(list(path))
                cur = X.ref_set(cur, path, v)
            if ops:
                out.append({"stream": "ops", "tag": "tuples", "input": {"tree": t, "mode": "tuples", "ops": ops, "paths": paths}})
        # a nested key that begins with '?', next to its twin without it, in a tree built from JSON text or wrapped raw data:
        # only a '?' in front of the WHOLE path marks an optional assignment; inside a path it is part of the name.  (Reading
        # such a key back through its xpath, and convert_recursively on it, are the recorded finding C01/qmark-key.)
        for _ in range(30 if tier == "quick" else 600):
            k = rng.choice(["?debug", "?x", "?"])
            inner = {k: rng.choice([0, "old"]), k[1:] or "q": rng.choice([1, "twin"]), "z": 2}
            if rng.random() < 0.5:
                inner = dict(reversed(list(inner.items())))
            t = {"request": inner, "a": X.gen_tree(rng, 2)}
            v = gen_value(rng) if rng.random() < 0.6 else rng.choice([None, "", 0])
            out.append({"stream": "ops", "tag": "qmark-key", "input": {"tree": t, "mode": rng.choice(["json", "json", "wrap"]),
                                                                       "ops": [["set", rng.choice(["request/%s", "/request/%s", "//request/%s"]) % k, v]],
                                                                       "paths": [["request", k]]}})
        # keys with leading / trailing blanks, addressed as plain keys on the dictionary that holds them (a plain key is
        # taken as it is; only the steps of a path are trimmed)
        for _ in range(50 if tier == "quick" else 1200):
            t = X.gen_tree(rng, 2, root="dict")
            k = rng.choice([" total", "code ", "id\t", " n "])
            t[k] = rng.choice([1, "x", None])
            if rng.random() < 0.5:
                t[k.strip()] = rng.choice([7, "twin"])
            if rng.random() < 0.5:
                t = dict(reversed(list(t.items())))
            v = gen_value(rng)
            out.append({"stream": "ops", "tag": "blank-padded-key",
                        "input": {"tree": t, "mode": rng.choice(["wrap", "json", "convert"]), "ops": [["set", k, v]], "paths": [[k]]}})
        # a dictionary that also holds a literal key spelled like the path of an existing nested node: the assignment
        # replaces the nested node (what lookup of that string addresses), never the literal entry
        for _ in range(60 if tier == "quick" else 1500):
            t = X.gen_tree(rng, 2, root="dict")
            lit, nested_path, nested = rng.choice([("limits/depth", ["limits", "depth"], {"limits": {"depth": 2, "z": 3}}),
                                                   ("item[0]", ["item", 0], {"item": [5, 6]}),
                                                   ("a/b/c", ["a", "b", "c"], {"a": {"b": {"c": "x"}}}),
                                                   ("m[1][0]", ["m", 1, 0], {"m": [[1], [2, 3]]})])
            t = {k: v for k, v in t.items() if k not in nested}
            t[lit] = rng.choice([1, "lit", None])
            t.update(copy.deepcopy(nested))
            if rng.random() < 0.5:
                t = dict(reversed(list(t.items())))
            v = gen_value(rng)
            out.append({"stream": "ops", "tag": "literal-path-key",
                        "input": {"tree": t, "mode": rng.choice(["wrap", "json"]), "ops": [["set", lit, v]], "paths": [nested_path]}})
        self._exh = None
        if tier == "thorough":
            n_trees = n_cases = 0
            style = 0
            for nodes in range(2, 6):
                for t in X.all_trees(nodes, root="dict"):
                    n_trees += 1
                    for path, _v in X.node_paths(t):
                        for v in (7, {"n": [1]}):
                            style = (style + 1) % 6
                            out.append({"stream": "ops", "tag": "exh:write",
                                        "input": {"tree": t, "mode": "convert", "ops": [["set", X.render(t, path, rng, style=style), v]],
                                                  "paths": [list(path)]}})
                            n_cases += 1
            self._exh = {"exhaustive_scopes": ["every dict-rooted tree with <= 5 nodes over keys {a,b}, leaves {1,'x'} (%d trees): every "
                                               "node x 2 replacement values as a single write (%d writes)" % (n_trees, n_cases)]}
        return out

    def extra_evidence(self):
        return getattr(self, "_exh", None) or {}

    def run_impl(self, case):
        i = case["input"]
        obj = X.build(i["tree"], i["mode"])
        ref = copy.deepcopy(i["tree"])
        fail = None
        for op, path in zip(i["ops"], i["paths"]):
            v = X.set_value(op)
            obj[op[1]] = v
            ref = X.ref_set(ref, path, op[2])
            if fail is None:
                if not X.same(X.plain(obj), ref):
                    fail = "after d[%r] = %r the tree is %r, the plain model that applied the same writes is %r" % (op[1], op[2], X.plain(obj), ref)
                elif X.raw_get(obj, path) is not v:
                    fail = "after d[%r] = v the addressed slot does not hold v" % (op[1],)
                elif any(isinstance(st_, str) and st_.startswith("?") for st_ in path):
                    pass        # reading a '?'-key back through its xpath is the recorded finding C01/qmark-key
                else:
                    try:
                        if obj[op[1]] is not v:
                            fail = "d[%r] is not the value just assigned" % (op[1],)
                    except Exception as e:  # noqa
                        fail = "d[%r] raises %s after the assignment" % (op[1], type(e).__name__)
        case["_fail"] = fail
        return {"ok": L.canon(obj)}

    def coq_input(self, case):
        i = case["input"]
        return X.ops_lit(X.build(i["tree"], i["mode"]), i["ops"])

    def oracle(self, case, obs):
        if "raise" in obs:
            return "an assignment to an existing node raised %s" % obs.get("exc")
        return case.pop("_fail", None)


PROP = C02
