"""C15 — text and bytes saved to a file load back unchanged under every EOL/mode;
the data is completely on disk when save_file returns."""
import builtins
import itertools
import os
import shutil
import tempfile

from n0v import coqlit as L
from n0v.core import Prop

ENCODINGS = ["utf-8", "utf-8-sig", "latin-1", "cp1252"]
STD_EOLS = ["\n", "\r\n", "\r"]
CUSTOM_EOLS = ["\n\r", "<EOL>", "||", "|", "\x1e\n"]
MODES = ["t", "b", "wt", "wb", "at"]
MORE_MODES = ["ab", "w", "a", "t+", "b+", "w+", "a+", "wt+", "wb+", "at+", "ab+"]
BAD_MODES = ["", "tt", "wbt", "tb", "bt", "q", "+", "w+b", "r", "rt", "x", "wa", "W", "wt ", "tw", "bw"]
# letters, blanks, tabs, non-ASCII (latin-1 range, cp1252-only, utf-8-only), newline
ALPHA = ["a", "b", " ", "\t", "é", "€", "ж", "\n", "\n"]
EXN_CODE = {"ExIndex": 0, "ExKey": 1, "ExType": 2, "ExValue": 3, "ExSyntax": 4, "ExAttribute": 5,
            "ExAssertion": 6, "ExUnbound": 7, "ExRecursion": 8, "ExOther": 9}


def b2s(b):
    return bytes(b).decode("latin-1")


def s2b(s):
    return s.encode("latin-1")


def encodable(s, enc):
    try:
        s.encode(enc)
        return True
    except (UnicodeError, ValueError):
        return False


class C15(Prop):
    id = "C15"
    props_file = "Props/C15.v"
    refuted_file = "Refuted/C15.v"
    rule = ("texts over {letters, blank, tab, e-acute, euro, Cyrillic, newline} (+ CR, U+FEFF, custom-EOL characters outside the "
            "property's domain for the correspondence alone); payload kinds str / bytes / list of str / list of bytes / mixed list / dict; "
            "modes t b wt wb at (+ ab w a t+ b+ w+ a+ ... and ill-formed mode strings); EOL default, LF, CRLF, CR, LFCR and custom "
            "multi-character; encodings utf-8, utf-8-sig, latin-1, cp1252; fresh, empty and pre-existing files; exhaustive texts up to "
            "a length bound x sampled configuration product, plus random longer texts; arbitrary byte files for load_file / load_lines; "
            "all single code points / bytes and random strings for the four codecs. Every save is observed with all handles returned by "
            "open() kept alive and the file read through a second descriptor when save_file returns. "
            "non-trivial = no exception; distinct = distinct (stream, input)")
    trusted_base = [
        "CPython's codecs utf-8 / utf-8-sig / latin-1 / cp1252: external C code, modelled in Files/Bytes.v, validated by the enc/dec streams of this run",
        "CPython's text layer (newline translation on write, BOM-once incremental encoder, universal newlines, readline) and open()'s mode "
        "validation: modelled in Files/SaveLoad.v, validated by the save/load/lines streams",
        "'completely on disk' is observed as: visible through a second descriptor while every handle save_file obtained is still referenced "
        "(no finaliser has run); what the kernel does after close() is outside the model",
        "os.linesep == '\\n' on the platform running the check (the default EOL)",
    ]
    assumptions = ["texts contain no CR (the property's 'only line separator is \\n'), no character of a custom EOL, and are encodable in "
                   "the requested encoding; custom EOLs are ASCII; lines of a list payload contain neither CR nor LF"]
    save_t = "save_in"
    streams = {
        "rt": dict(requires=["Files.Bytes", "Files.SaveLoad"], itype="save_in * pstr", model="obs_rt"),
        "save": dict(requires=["Files.Bytes", "Files.SaveLoad"], itype="save_in", model="obs_save"),
        "load": dict(requires=["Files.Bytes", "Files.SaveLoad"], itype="load_in", model="obs_load"),
        "lines": dict(requires=["Files.Bytes", "Files.SaveLoad"], itype="load_in", model="obs_lines"),
        "enc": dict(requires=["Files.Bytes", "Files.SaveLoad"], itype="N * pstr", model="obs_encode"),
        "dec": dict(requires=["Files.Bytes", "Files.SaveLoad"], itype="N * pstr", model="obs_decode"),
        "decs": dict(requires=["Files.Bytes", "Files.SaveLoad"], itype="N * pstr", model="obs_decode_stream"),
    }

    def setup(self):
        import n0struct
        self.save_file = n0struct.save_file
        self.load_file = n0struct.load_file
        self.load_lines = n0struct.load_lines
        self.dir = tempfile.mkdtemp(prefix="n0v-")
        self.counter = 0
        self.stats = {}
        assert os.linesep == "\n"

    def teardown(self):
        d = getattr(self, "dir", None)
        if d and os.path.isdir(d):
            shutil.rmtree(d, ignore_errors=True)

    # ---- generation -----------------------------------------------------------
    def rand_text(self, rng, alpha, maxlen):
        return "".join(rng.choice(alpha) for _ in range(rng.randint(0, maxlen)))

    def rand_payload(self, rng, enc, wild):
        alpha = list(ALPHA)
        if wild:
            alpha += ["\r", "\ufeff", "<", "|", "E", "\x1e"]
        k = rng.random()
        if k < 0.4:
            return {"k": "s", "v": self.rand_text(rng, alpha, rng.choice([0, 1, 2, 4, 8, 16]))}
        if k < 0.55:
            if rng.random() < 0.6:
                t = self.rand_text(rng, alpha, 8)
                if encodable(t, enc):
                    return {"k": "y", "v": b2s(t.encode(enc))}
            return {"k": "y", "v": "".join(chr(rng.choice([0, 10, 13, 65, 128, 129, 191, 233, 239, 187, 255, 0xC3, 0xA9]))
                                           for _ in range(rng.randint(0, 8)))}
        line_alpha = [c for c in alpha if c != "\n"] if not wild else alpha
        if k < 0.9:
            kind = rng.choice(["s", "s", "y", "m"])
            items = []
            for _ in range(rng.choice([0, 1, 1, 2, 3, 5])):
                t = self.rand_text(rng, line_alpha, rng.choice([0, 1, 2, 4]))
                as_bytes = kind == "y" or (kind == "m" and rng.random() < 0.5)
                if as_bytes:
                    if encodable(t, enc) and not (wild and rng.random() < 0.3):
                        items.append(["y", b2s(t.encode(enc))])
                    else:
                        items.append(["y", "".join(chr(rng.choice([65, 128, 129, 233, 255, 0xC3, 0xA9])) for _ in range(rng.randint(0, 3)))])
                else:
                    items.append(["s", t])
            return {"k": "l", "v": items}
        keys = rng.sample(["k", "key 2", "é", "x=y", ""], rng.randint(0, 3))
        return {"k": "d", "v": [[kk, self.rand_text(rng, line_alpha, 3)] for kk in keys]}

    def rand_disk(self, rng, enc):
        k = rng.random()
        if k < 0.45:
            return None
        if k < 0.6:
            return ""
        t = self.rand_text(rng, ALPHA, 5)
        if rng.random() < 0.8 and encodable(t, enc):
            return b2s(t.encode(enc))
        return "".join(chr(rng.choice([10, 13, 65, 239, 187, 191, 255])) for _ in range(rng.randint(1, 5)))

    def generate(self, rng, tier):
        out = []
        quick = tier == "quick"
        self.tier = tier
        # --- exhaustive short texts x sampled configuration product --------------------
        maxlen = 3 if quick else 4
        crit = ["a", "é", "\n", " "] if quick else ["a", "é", "\n", " ", "€"]
        texts = [""]
        for n in range(1, maxlen + 1):
            texts += ["".join(t) for t in itertools.product(crit, repeat=n)]
        eols = [None] + STD_EOLS + CUSTOM_EOLS[:3]
        per_text = 6 if quick else 40
        for t in texts:
            for _ in range(per_text):
                enc = rng.choice(ENCODINGS)
                eol = rng.choice(eols)
                mode = rng.choice(MODES)
                kind = rng.choice(["s", "s", "y", "l", "d"])
                if kind == "s":
                    p = {"k": "s", "v": t}
                elif kind == "y":
                    p = {"k": "y", "v": b2s(t.encode("utf-8"))}
                elif kind == "l":
                    p = {"k": "l", "v": [["s", x] for x in t.split("\n")]}
                else:
                    p = {"k": "d", "v": [[("k%d" % i), x] for i, x in enumerate(t.split("\n"))]}
                disk = self.rand_disk(rng, enc) if mode[0] == "a" or rng.random() < 0.2 else None
                rm = "b" if kind == "y" else "t"
                out.append({"stream": "rt", "tag": "exh:rt:" + kind,
                            "input": {"disk": disk, "p": p, "mode": mode, "enc": enc, "eol": eol, "rm": rm}})
        # --- random ----------------------------------------------------------------------
        n = 1500 if quick else 30000
        for _ in range(n):
            enc = rng.choice(ENCODINGS)
            wild = rng.random() < 0.25
            eol = rng.choice([None] + STD_EOLS * 2 + CUSTOM_EOLS)
            mode = rng.choice(MODES * 3 + MORE_MODES)
            p = self.rand_payload(rng, enc, wild)
            disk = self.rand_disk(rng, enc)
            rm = "b" if (p["k"] == "y") != (rng.random() < 0.1) else "t"
            out.append({"stream": "rt", "tag": "rnd:rt:" + p["k"] + (":wild" if wild else ""),
                        "input": {"disk": disk, "p": p, "mode": mode, "enc": enc, "eol": eol, "rm": rm}})
        # --- large files: a separator straddling every power-of-two offset from 2**9 to 2**17 (block boundaries of
        #     any chunked reader); too large for the in-Coq evaluation, so these go to the oracle only ---------------
        big = [("\n\r", "s"), ("<EOL>", "s"), ("||", "s"), ("\r\n", "l"), ("\n", "s"), ("\r\n", "s")]
        for eol, kind in (big if quick else big * 4):
            lines, off = [], 0
            for kexp in range(9, 18):
                b = 1 << kexp
                while True:
                    ln = rng.randint(0, 9)
                    if off + ln + len(eol) >= b - 1:
                        ln = b - 1 - off            # the separator after this line starts one byte before the boundary
                        lines.append("".join(rng.choice("abcXYZ 019") for _ in range(ln)))
                        off += ln + len(eol)
                        break
                    lines.append("".join(rng.choice("abcXYZ 019") for _ in range(ln)))
                    off += ln + len(eol)
            lines.append("tail")
            pl = {"k": "s", "v": "\n".join(lines)} if kind == "s" else {"k": "l", "v": [["s", x] for x in lines]}
            out.append({"stream": "rt", "tag": "big:rt:" + kind,
                        "input": {"disk": None, "p": pl, "mode": rng.choice(["w", "wt", "wb"]), "enc": "utf-8",
                                  "eol": eol, "rm": "t"}})
        # --- payloads whose length is an exact multiple of a power-of-two block size (2**12 .. 2**17, once and twice):
        #     in characters (text path), in bytes after the EOL translation (binary path), as bytes payload, appended
        for _ in range(10 if quick else 80):
            size = (1 << rng.choice([12, 13, 16, 16, 16, 17])) * rng.choice([1, 1, 2])
            shape = rng.choice(["text", "text", "binary", "bytes", "append"])
            eol = rng.choice(["\n", "\r\n", "\r"])
            nl = rng.randint(0, 40)
            if shape == "binary":
                eol, body = "\r\n", size - 2 * nl      # every '\n' becomes two bytes
            else:
                body = size - nl
            chunks = [rng.randint(0, 200) for _ in range(nl)]
            rest = body - sum(chunks)
            chunks.append(rest)
            text = "\n".join("".join(rng.choice("abcXYZ 019") for _ in range(c)) for c in chunks)
            if shape == "bytes":
                pl, mode, rm = {"k": "y", "v": b2s(bytes(rng.randrange(256) for _ in range(size)))}, rng.choice(["b", "wb"]), "b"
            else:
                pl, rm = {"k": "s", "v": text}, "t"
                mode = {"text": rng.choice(["t", "wt", "w"]), "binary": rng.choice(["b", "wb"]), "append": rng.choice(["at", "a"])}[shape]
            out.append({"stream": "rt", "tag": "big:rt:exact:" + shape,
                        "input": {"disk": b2s(b"head\n") if shape == "append" else None, "p": pl, "mode": mode, "enc": "utf-8",
                                  "eol": eol, "rm": rm}})
        # --- save alone, including ill-formed mode strings and unencodable EOLs ---------------
        for _ in range(400 if quick else 6000):
            enc = rng.choice(ENCODINGS)
            eol = rng.choice(STD_EOLS + CUSTOM_EOLS + ["", "€", "é\n", "\n\n"])
            mode = rng.choice(MODES + MORE_MODES + BAD_MODES * 2)
            out.append({"stream": "save", "tag": "rnd:save",
                        "input": {"disk": self.rand_disk(rng, enc), "p": self.rand_payload(rng, enc, True),
                                  "mode": mode, "enc": enc, "eol": eol}})
        # --- load_file / load_lines on arbitrary files ----------------------------------------
        balpha = [10, 13, 13, 10, 65, 66, 32, 0xC3, 0xA9, 0xE2, 0x82, 0xAC, 239, 187, 191, 0x81, 0xFF, ord("|"), ord("<")]
        for _ in range(700 if quick else 12000):
            enc = rng.choice(ENCODINGS)
            k = rng.random()
            if k < 0.05:
                disk = None
            elif k < 0.5:
                t = self.rand_text(rng, ALPHA + ["\r", "\r\n", "\ufeff", "||", "<EOL>", "\x0b", "\x0c", "\x1c", "\x85"], 10)
                disk = b2s(t.encode(enc)) if encodable(t, enc) else b2s(t.encode("utf-8"))
            else:
                disk = "".join(chr(rng.choice(balpha)) for _ in range(rng.randint(0, 10)))
            eol = rng.choice(STD_EOLS * 2 + CUSTOM_EOLS + ["", "é"])
            rm = rng.choice(["t", "t", "b", "b", "t+", "b+", "", "rt", "tt", "bt", "tb", "x", "tx"])
            st = rng.choice(["load", "lines"])
            out.append({"stream": st, "tag": "rnd:" + st, "input": {"disk": disk, "rm": rm, "enc": enc, "eol": eol}})
        # --- the codecs ------------------------------------------------------------------------
        cps = list(range(0, 0x180)) + [0x192, 0x2C6, 0x2DC, 0x7FF, 0x800, 0xFFF, 0x1000] + list(range(0x2010, 0x2040)) \
            + [0x20AC, 0x2122, 0xD7FF, 0xD800, 0xDFFF, 0xE000, 0xFEFF, 0xFFFD, 0xFFFF, 0x10000, 0x3FFFF, 0x40000, 0x10FFFF]
        if quick:
            cps = [c for c in cps if c < 0x100 and c % 3 == 0 or c >= 0x100 or 0x7E <= c <= 0xA1]
        for cp in cps:
            enc = ENCODINGS[cp % 4] if quick else None
            for e in ([enc] if enc else ENCODINGS):
                out.append({"stream": "enc", "tag": "exh:enc", "input": {"enc": e, "text": chr(cp)}})
        for b in range(256):
            for e in (["utf-8", "cp1252"] if quick else ENCODINGS):
                out.append({"stream": "dec", "tag": "exh:dec", "input": {"enc": e, "bytes": chr(b)}})
        lead = [0x41, 0x7F, 0x80, 0xBF, 0xC0, 0xC1, 0xC2, 0xDF, 0xE0, 0xE1, 0xEC, 0xED, 0xEE, 0xEF, 0xF0, 0xF1, 0xF3, 0xF4, 0xF5, 0xFF]
        cont = [0x41, 0x7F, 0x80, 0x8F, 0x90, 0x9F, 0xA0, 0xBF, 0xC0, 0xBB]
        for l in lead:
            for c1 in cont:
                out.append({"stream": "dec", "tag": "exh:dec2", "input": {"enc": "utf-8", "bytes": chr(l) + chr(c1)}})
                for c2 in ([0x80, 0xBF] if quick else cont):
                    out.append({"stream": "dec", "tag": "exh:dec3", "input": {"enc": rng.choice(["utf-8", "utf-8-sig"]),
                                                                              "bytes": chr(l) + chr(c1) + chr(c2)}})
                    if l >= 0xF0:
                        out.append({"stream": "dec", "tag": "exh:dec4", "input": {"enc": "utf-8",
                                                                                  "bytes": chr(l) + chr(c1) + chr(c2) + chr(rng.choice(cont))}})
        for _ in range(300 if quick else 6000):
            e = rng.choice(ENCODINGS)
            if rng.random() < 0.5:
                t = "".join(chr(rng.choice(cps)) for _ in range(rng.randint(0, 6)))
                out.append({"stream": "enc", "tag": "rnd:enc", "input": {"enc": e, "text": t}})
            else:
                t = "".join(chr(rng.choice([c for c in cps if not 0xD800 <= c <= 0xDFFF])) for _ in range(rng.randint(0, 5)))
                b = list(t.encode("utf-8-sig" if rng.random() < 0.3 else "utf-8"))
                if b and rng.random() < 0.4:
                    b[rng.randrange(len(b))] = rng.choice(lead + cont)
                if b and rng.random() < 0.2:
                    b = b[:-1]
                out.append({"stream": "dec", "tag": "rnd:dec", "input": {"enc": e, "bytes": b2s(b)}})
        for b in ["", "\xef", "\xef\xbb", "\xef\xbb\xbf", "\xef\xbbA", "\xefA", "A\xef", "\xef\xbb\xbf\xef", "\xef\xbb\xbf\xef\xbb\xbf",
                  "\xef\xbb\xbfA", "\xef\xbb\xbf\xc3\xa9"]:
            for e in ENCODINGS:
                out.append({"stream": "decs", "tag": "exh:decs", "input": {"enc": e, "bytes": b}})
        more = []
        for c in out:
            if c["stream"] == "dec" and (not quick or rng.random() < 0.25):
                more.append({"stream": "decs", "tag": c["tag"].replace("dec", "decs"), "input": dict(c["input"])})
        return out + more

    def valid(self, case):
        i = case["input"]
        if i.get("enc") not in ENCODINGS:
            return False
        if "mode" in i and i["mode"] not in MODES + MORE_MODES + BAD_MODES:
            return False
        if "rm" in i and case["stream"] == "rt" and i["rm"] not in ("t", "b"):
            return False
        if "eol" in i and i["eol"] is not None and i["eol"] not in STD_EOLS + CUSTOM_EOLS + ["", "€", "é\n", "\n\n", "é"]:
            return False
        if "p" in i:
            p = i["p"]
            if p.get("k") not in ("s", "y", "l", "d"):
                return False
            if p["k"] in ("l", "d") and not all(isinstance(x, list) and len(x) == 2 for x in p["v"]):
                return False
            if p["k"] == "l" and not all(x[0] in ("s", "y") for x in p["v"]):
                return False
            if p["k"] == "d" and len(set(x[0] for x in p["v"])) != len(p["v"]):
                return False
        return True

    # ---- implementation ------------------------------------------------------------
    def payload(self, p):
        k, v = p["k"], p["v"]
        if k == "s":
            return v
        if k == "y":
            return s2b(v)
        if k == "l":
            return [s2b(x) if t == "y" else x for t, x in v]
        return {kk: vv for kk, vv in v}

    def path(self):
        self.counter += 1
        return os.path.join(self.dir, "f%d.txt" % self.counter)

    def put(self, path, disk):
        if os.path.exists(path):
            os.remove(path)
        if disk is not None:
            fd = os.open(path, os.O_WRONLY | os.O_CREAT | os.O_TRUNC)
            try:
                os.write(fd, s2b(disk))
            finally:
                os.close(fd)

    def read_fd(self, path):
        if not os.path.exists(path):
            return None
        fd = os.open(path, os.O_RDONLY)
        try:
            chunks = []
            while True:
                c = os.read(fd, 1 << 16)
                if not c:
                    break
                chunks.append(c)
            return b"".join(chunks)
        finally:
            os.close(fd)

    def durable_save(self, path, i):
        """save_file with every handle it obtains from open() kept referenced; returns
        the file content seen through a second descriptor when save_file returns"""
        kept = []
        real_open = builtins.open

        def keeping_open(*a, **k):
            h = real_open(*a, **k)
            kept.append(h)
            return h
        kw = dict(mode=i["mode"], encoding=i["enc"])
        if i.get("eol") is not None:
            kw["EOL"] = i["eol"]
        builtins.open = keeping_open
        try:
            self.save_file(path, self.payload(i["p"]), **kw)
            seen = self.read_fd(path)
        finally:
            builtins.open = real_open
            for h in kept:
                try:
                    h.close()
                except Exception:
                    pass
        return seen

    def nested(self, fn):
        try:
            return ["l", 0, [fn()]]
        except BaseException as e:  # noqa
            if isinstance(e, (KeyboardInterrupt, SystemExit)) or type(e).__name__ == "CaseTimeout":
                raise
            return ["i", EXN_CODE[L.exn_name(e)]]

    def canon_loaded(self, v):
        return ["y", list(v)] if isinstance(v, (bytes, bytearray)) else ["s", v]

    def run_impl(self, case):
        i, st = case["input"], case["stream"]
        if st == "enc":
            return {"ok": ["y", list(i["text"].encode(i["enc"]))]}
        if st == "dec":
            return {"ok": ["s", s2b(i["bytes"]).decode(i["enc"])]}
        if st == "decs":
            path = self.path()
            try:
                self.put(path, i["bytes"])
                with open(path, "rt", encoding=i["enc"], newline="") as f:
                    return {"ok": ["s", f.read()]}
            finally:
                if os.path.exists(path):
                    os.remove(path)
        path = self.path()
        try:
            self.put(path, i["disk"])
            lk = dict(encoding=i["enc"])
            if i.get("eol") is not None:
                lk["EOL"] = i["eol"]
            if st == "load":
                return {"ok": self.canon_loaded(self.load_file(path, i["rm"], **lk))}
            if st == "lines":
                return {"ok": ["l", 0, [self.canon_loaded(x) for x in self.load_lines(path, i["rm"], **lk)]]}
            seen = self.durable_save(path, i)
            d = ["n"] if seen is None else ["y", list(seen)]
            if st == "save":
                return {"ok": d}
            a = self.nested(lambda: self.canon_loaded(self.load_file(path, i["rm"], **lk)))
            b = self.nested(lambda: ["l", 0, [self.canon_loaded(x) for x in self.load_lines(path, "t", **lk)]])
            return {"ok": ["l", 0, [d, a, b]]}
        finally:
            if os.path.exists(path):
                os.remove(path)

    # ---- Coq literals ---------------------------------------------------------------------
    def lit_payload(self, p):
        k, v = p["k"], p["v"]
        if k == "s":
            return "(PStr %s)" % L.pstr(v)
        if k == "y":
            return "(PBytes %s)" % L.pstr(s2b(v))
        if k == "l":
            return "(PList %s)" % L.lst(("IBytes %s" % L.pstr(s2b(x))) if t == "y" else ("IStr %s" % L.pstr(x)) for t, x in v)
        return "(PDict %s)" % L.lst("(%s, %s)" % (L.pstr(a), L.pstr(b)) for a, b in v)

    def lit_disk(self, d):
        return "None" if d is None else "(Some %s)" % L.pstr(s2b(d))

    def coq_input(self, case):
        i, st = case["input"], case["stream"]
        if case.get("tag", "").startswith("big:"):
            raise L.Unrepresentable("large file: oracle only")
        cn = "%d%%N" % ENCODINGS.index(i["enc"])
        if st == "enc":
            return "(%s, %s)" % (cn, L.pstr(i["text"]))
        if st in ("dec", "decs"):
            return "(%s, %s)" % (cn, L.pstr(s2b(i["bytes"])))
        eol = L.pstr("\n" if i.get("eol") is None else i["eol"])
        if st in ("load", "lines"):
            return "(((%s, %s), %s), %s)" % (self.lit_disk(i["disk"]), L.pstr(i["rm"]), cn, eol)
        s = "((((%s, %s), %s), %s), %s)" % (self.lit_disk(i["disk"]), self.lit_payload(i["p"]), L.pstr(i["mode"]), cn, eol)
        if st == "rt":
            return "(%s, %s)" % (s, L.pstr(i["rm"]))
        return s

    # ---- the property on the implementation -----------------------------------------------
    def domain(self, i):
        """None if the case is outside the property's quantifier, else a dict describing
        what the property demands: expected text/bytes written, and what to compare"""
        p, enc, mode = i["p"], i["enc"], i["mode"]
        eol = "\n" if i.get("eol") is None else i["eol"]
        if mode not in MODES + MORE_MODES:
            return None
        if not eol or not all(ord(c) < 128 for c in eol):
            return None
        std = eol in STD_EOLS
        append = mode[0] == "a"
        old = b"" if (i["disk"] is None or not append) else s2b(i["disk"])

        def text_ok(t):
            if "\r" in t or not encodable(t, enc):
                return False
            return std or any(c != "\n" and c not in t for c in eol)
        k = p["k"]
        if k == "y":
            return dict(kind="bytes", old=old, raw=s2b(p["v"]))
        if k in ("s", "d"):
            t = p["v"] if k == "s" else "\n".join("%s=%s" % (a, b) for a, b in p["v"])
            if not text_ok(t):
                return None
            return dict(kind="text", old=old, text=t, eol=eol, std=std)
        lines = []
        plain = "utf-8" if enc == "utf-8-sig" else enc
        for t, x in p["v"]:
            if t == "y":
                try:
                    x = s2b(x).decode(plain)
                except UnicodeError:
                    return None
                if x.startswith("\ufeff"):
                    return None
            if "\n" in x or not text_ok(x):
                return None
            lines.append(x)
        return dict(kind="lines", old=old, lines=lines, eol=eol, std=std, all_str=all(t == "s" for t, _ in p["v"]))

    def oracle(self, case, obs):
        if case["stream"] != "rt":
            return None
        i = case["input"]
        dom = self.domain(i)
        if dom is None:
            self.stats["outside_quantifier"] = self.stats.get("outside_quantifier", 0) + 1
            return None
        key = "oracle:%s:%s" % (dom["kind"], "append" if dom["old"] else "fresh")
        self.stats[key] = self.stats.get(key, 0) + 1
        enc = i["enc"]
        if "raise" in obs:
            return "save_file raised %s on a payload of the quantifier" % obs.get("exc", obs["raise"])
        d, a, b = obs["ok"][2]
        if d[0] != "y":
            return "no file after save_file returned"
        disk = bytes(d[1])
        old = dom["old"]
        if disk[:len(old)] != old:
            return "existing content not kept / not on disk when save_file returned: %r, was %r" % (disk, old)
        added = disk[len(old):]
        if dom["kind"] == "bytes":
            if added != dom["raw"]:
                return "bytes payload %r stored as %r (seen through a second descriptor when save_file returned)" % (dom["raw"], added)
            if i["rm"] == "b" and a != ["l", 0, [["y", list(disk)]]]:
                return "load_file(read_mode='b') returned %r for the file %r" % (a, disk)
            return None
        if dom["kind"] == "text":
            want_text = dom["text"].replace("\n", dom["eol"])
        else:
            want_text = "".join(l + dom["eol"] for l in dom["lines"])
        plain = "utf-8" if enc == "utf-8-sig" else enc
        data = want_text.encode(plain)
        # utf-8-sig: the byte-order mark in front is part of "the requested encoding"; the text layer
        # omits it when appending to a non-empty file
        if not (added == data or (enc == "utf-8-sig" and added == b"\xef\xbb\xbf" + data)):
            return "bytes on disk when save_file returned: %r; expected %r in %s (after the existing %r)" % (added, want_text, enc, old)
        if old:
            return None          # append: the property speaks about the file content only
        if dom["kind"] == "text" and i["rm"] == "t":
            if a != ["l", 0, [["s", dom["text"]]]]:
                return "load_file returned %r, saved %r (EOL %r, %s)" % (a, dom["text"], dom["eol"], enc)
        if dom["kind"] == "lines" and dom["std"]:
            if b != ["l", 0, [["l", 0, [["s", l] for l in dom["lines"]]]]]:
                return "load_lines returned %r, saved lines %r (EOL %r, %s)" % (b, dom["lines"], dom["eol"], enc)
        return None

    def extra_evidence(self):
        ev = {"oracle_stats": dict(self.stats)}
        n = 4 if getattr(self, "tier", "quick") == "thorough" else 3
        ev["exhaustive_scopes"] = ["all texts of length <= %d over the critical alphabet, each under %s sampled (kind, mode, EOL, encoding) "
                                   "configurations" % (n, "40" if n == 4 else "6"),
                                   "all 256 single bytes and the lead x continuation grids for the decoders; the listed code points for the encoders"]
        return ev

    @staticmethod
    def cls_bom_per_chunk(case, obs, failure):
        """known finding: list payload written through the binary path (mode with 'b' or a
        non-standard EOL) with utf-8-sig: every line and every EOL carries its own BOM"""
        i = case["input"]
        if i.get("enc") != "utf-8-sig" or i["p"]["k"] != "l" or not i["p"]["v"]:
            return False
        eol = "\n" if i.get("eol") is None else i["eol"]
        return "b" in i["mode"] or eol not in STD_EOLS

    classifiers = {"bom_per_chunk": cls_bom_per_chunk.__func__}


PROP = C15
