"""C20 — no public entry point can fail on a name the library never defined.

Unlike the other properties the Coq model is not hand-written: on every run the
package sources under $N0V_REPO are translated (harness/n0v_scope/translate.py,
fail-closed, `ast`) into a term `RepoProgram.repo : Scope.Lang.program`; the
Gallina checker `Scope.Checker.check` is evaluated on it by vm_compute, and

    repo_clean     : check repo = <recorded list>          (vm_compute)
    repo_ok_modulo : ok_modulo repo <recorded list>        (C20_check_lists_all)
    repo_ok        : program_ok repo                       (C20_check_sound, when the list is empty)

are compiled in the per-run work directory.  The translator and the Gallina
import/scoping semantics are cross-validated against CPython on every run
(symtable, dis, dir(module) after a real import in a subprocess, live MROs) and
the verdict of the model is compared with the verdict of an independent
introspection of the live objects; each reported reference is then driven to
its NameError / AttributeError by calling the function (the failing input).
"""
import concurrent.futures as cf
import json
import os
import random
import shutil
import subprocess
import sys
import tempfile
import time
import traceback

from n0v import coqrun
from n0v import core
from n0v.core import Prop
from n0v_scope import coqparse, mutate, translate, validate

PKG = "n0struct"
PROBE = os.path.join(os.path.dirname(os.path.abspath(translate.__file__)), "probe.py")
REQ = ["Scope.Lang", "Scope.Sem", "Scope.Spec", "Scope.Checker", "Scope.CheckerProofs"]
HEADER = ("From Coq Require Import List String NArith.\n"
          "From N0 Require Import %s.\n"
          "From Gen Require Import %%s.\n"
          "Import ListNotations.\nOpen Scope string_scope.\nOpen Scope N_scope.\nOpen Scope list_scope.\n"
          "Set Printing Depth 10000000.\nSet Printing Width 1000.\n") % " ".join(REQ)


def repo_dir():
    return os.path.abspath(os.environ.get("N0V_REPO", "/repo"))


# ---- violations ------------------------------------------------------------------------------------

def viol_dict(v):
    """parsed Coq violation -> JSON-able dict"""
    k = v[0]
    if k == "VUnbound":
        return {"kind": "unbound", "module": v[1], "path": list(v[2]), "line": v[3], "name": v[4]}
    if k == "VSelfAttr":
        return {"kind": "self_attr", "module": v[1], "target": v[2], "def": v[3], "method": v[4], "line": v[5], "name": v[6]}
    if k == "VAttr":
        return {"kind": "attr", "module": v[1], "path": list(v[2]), "line": v[3], "base": v[4], "name": v[5]}
    if k == "VAllEntry":
        return {"kind": "all_entry", "module": v[1], "name": v[2]}
    if k == "VNotExposed":
        return {"kind": "not_exposed", "module": v[1], "name": v[2]}
    if k == "VImportName":
        return {"kind": "import_name", "module": v[1], "target": v[2], "name": v[3]}
    if k == "VStarEntry":
        return {"kind": "star_entry", "module": v[1], "target": v[2], "name": v[3]}
    if k == "VModuleUse":
        return {"kind": "module_use", "module": v[1], "name": v[2]}
    if k == "VAllUnknown":
        return {"kind": "all_unknown", "module": v[1]}
    if k == "VExternalStar":
        return {"kind": "external_star", "module": v[1], "target": v[2]}
    if k == "VBase":
        return {"kind": "base_unknown", "module": v[1], "class": v[2]}
    if k == "VFuel":
        return {"kind": "fuel", "module": v[1]}
    return {"kind": "unparsed", "raw": repr(v)}


def q(s):
    return '"%s"' % s


def viol_coq(d):
    k = d["kind"]
    if k == "unbound":
        return "VUnbound %s [%s] %d %s" % (q(d["module"]), "; ".join(q(x) for x in d["path"]), d["line"], q(d["name"]))
    if k == "self_attr":
        return "VSelfAttr %s %s %s %s %d %s" % (q(d["module"]), q(d["target"]), q(d["def"]), q(d["method"]), d["line"], q(d["name"]))
    if k == "attr":
        return "VAttr %s [%s] %d %s %s" % (q(d["module"]), "; ".join(q(x) for x in d["path"]), d["line"], q(d["base"]), q(d["name"]))
    if k == "all_entry":
        return "VAllEntry %s %s" % (q(d["module"]), q(d["name"]))
    if k == "not_exposed":
        return "VNotExposed %s %s" % (q(d["module"]), q(d["name"]))
    if k == "import_name":
        return "VImportName %s %s %s" % (q(d["module"]), q(d["target"]), q(d["name"]))
    if k == "star_entry":
        return "VStarEntry %s %s %s" % (q(d["module"]), q(d["target"]), q(d["name"]))
    if k == "module_use":
        return "VModuleUse %s %s" % (q(d["module"]), q(d["name"]))
    if k == "all_unknown":
        return "VAllUnknown %s" % q(d["module"])
    if k == "external_star":
        return "VExternalStar %s %s" % (q(d["module"]), q(d["target"]))
    if k == "base_unknown":
        return "VBase %s %s" % (q(d["module"]), q(d["class"]))
    if k == "fuel":
        return "VFuel %s" % q(d["module"])
    raise ValueError(k)


def site_key(d):
    """identity of a violation that survives line shifts"""
    return (d.get("kind"), d.get("module"), tuple(d.get("path", ())) or d.get("qualname"), d.get("target"),
            d.get("def"), d.get("method"), d.get("class"), d.get("base"), d.get("name"))


def describe(d):
    k = d["kind"]
    if k == "unbound":
        return ("%s: %s (line %s) reads the global name '%s', which is bound neither in the module namespace after "
                "import nor in builtins: calling it raises NameError" % (d["module"], ".".join(d.get("path") or [d.get("qualname", "?")]), d.get("line"), d["name"]))
    if k == "self_attr":
        return ("%s: method %s of %s reads self.%s, which no class in the MRO of %s defines or assigns: "
                "AttributeError on a library object" % (d["module"], d["method"], d["def"], d["name"], d["target"]))
    if k == "attr":
        return ("%s: %s (line %s) reads %s.%s, but the package %s that the global '%s' denotes has no attribute '%s': "
                "AttributeError on a library object" % (d["module"], ".".join(d.get("path") or [d.get("qualname", "?")]), d.get("line"),
                                                        d["base"], d["name"], "class or module", d["base"], d["name"]))
    if k == "all_entry":
        return "%s.__all__ lists '%s', which the module does not define" % (d["module"], d["name"])
    if k == "not_exposed":
        return "%s.__all__ lists '%s', which the package namespace does not expose" % (d["module"], d["name"])
    if k == "import":
        return "importing %s fails: %s: %s" % (d.get("module"), d.get("type"), d.get("msg"))
    if k == "import_name":
        return "%s: 'from %s import %s' finds no such name at import time" % (d["module"], d["target"], d["name"])
    if k == "star_entry":
        return "%s: star import from %s, whose __all__ lists the missing name '%s'" % (d["module"], d["target"], d["name"])
    if k == "module_use":
        return "%s: a module-level statement reads '%s' before anything binds it" % (d["module"], d["name"])
    return "%s: the model cannot decide (%s)" % (d.get("module"), json.dumps(d))


# ---- pipeline pieces ----------------------------------------------------------------------------------

def run_probe(mode, repo, req, cwd, timeout=240):
    fd, path = tempfile.mkstemp(prefix="n0v-c20-", suffix=".json", dir=cwd)
    with os.fdopen(fd, "w") as fh:
        json.dump(req, fh)
    env = dict(os.environ)
    env.update(PYTHONPATH=repo, PYTHONDONTWRITEBYTECODE="1", PYTHONHASHSEED="0")
    try:
        r = subprocess.run(["timeout", str(timeout), sys.executable, PROBE, mode, repo, PKG, path], cwd=cwd, env=env,
                           stdout=subprocess.PIPE, stderr=subprocess.PIPE, text=True)
    finally:
        os.unlink(path)
    lines = [l for l in r.stdout.splitlines() if l.strip()]
    if not lines:
        return {"probe_error": "no output (exit %s): %s" % (r.returncode, r.stderr[-1500:])}
    try:
        return json.loads(lines[-1])
    except ValueError:
        return {"probe_error": "unparsable output: %s" % r.stdout[-500:]}


def translate_to(repo, workdir, modname):
    """translate the package under [repo]; write workdir/<modname>.v; returns prog"""
    prog = translate.translate_package(repo, PKG)
    with open(os.path.join(workdir, modname + ".v"), "w", encoding="utf-8") as fh:
        fh.write(translate.to_coq(prog))
    return prog


def coq_eval(workdir, progmod, name, body):
    """write <name>.v = header + body, compile, return (rc, stdout, stderr)"""
    path = os.path.join(workdir, name + ".v")
    with open(path, "w", encoding="utf-8") as fh:
        fh.write(HEADER % progmod)
        fh.write(body)
    return coqrun.coqc(path, extra_q=[(workdir, "Gen")], timeout=600, cwd=workdir)


def compile_program(workdir, progmod):
    return coqrun.coqc(os.path.join(workdir, progmod + ".v"), extra_q=[(workdir, "Gen")], timeout=600, cwd=workdir)


def model_violations(workdir, progmod):
    rc, out, err = coq_eval(workdir, progmod, "Eval_" + progmod, "Eval vm_compute in (check repo).\n")
    if rc != 0:
        raise RuntimeError("check did not evaluate: " + (out + err)[-1500:])
    blocks = coqparse.eval_blocks(out)
    return [viol_dict(v) for v in blocks[0]]


def count_sites(prog):
    scopes = loads = attrs = 0

    def walk(sc):
        nonlocal scopes, loads, attrs
        scopes += 1
        loads += len(set(sc.loads))
        attrs += len(set(sc.attrs))
        for c in sc.children:
            walk(c)
    for mt in prog["modules"]:
        for c in mt.mod.children:
            walk(c)
    return scopes, loads, attrs


# ---- the check ---------------------------------------------------------------------------------------------

def main(tier, seed):
    t0 = time.time()
    os.makedirs(core.EVIDENCE, exist_ok=True)
    os.makedirs(core.REPLAYS, exist_ok=True)
    gen_root = os.path.join(coqrun.COQ, "gen")
    os.makedirs(gen_root, exist_ok=True)
    workdir = tempfile.mkdtemp(prefix="C20-%d-" % os.getpid(), dir=gen_root)
    scratch = tempfile.mkdtemp(prefix="n0v-c20-")
    repo = repo_dir()
    rng = random.Random(seed)
    failures, notes, theorems = [], [], []
    findings = [f for f in core.load_findings() if f.get("property") == "C20"]
    known = [f for f in findings if f.get("status") == "known"]
    known_keys = {}
    for f in known:
        for w in f.get("witnesses", []):
            known_keys[site_key(w["input"])] = f["id"]
    cov = {}
    obligations = discharged = 0
    try:
        # ---- 1. the general theorems -----------------------------------------------------------
        ok, log = coqrun.ensure_build(["Props/C20.v"])
        if not ok:
            failures.append({"kind": "theorem", "detail": "development does not build", "log": log})
        gate = coqrun.source_gate()
        if gate:
            failures.append({"kind": "theorem", "detail": "forbidden declarations in the development: %s" % gate})
        if ok:
            tok, res, tlog = coqrun.check_theorems("Props/C20.v", workdir)
            for r in res:
                r["file"] = "Props/C20.v"
            theorems += res
            if not tok:
                failures.append({"kind": "theorem", "detail": "Props/C20.v: theorem(s) no longer check: %s"
                                 % [r["name"] for r in res if not r["closed"]], "log": tlog})
        # ---- 2. translate the repository (fail-closed) ----------------------------------------
        prog = None
        try:
            prog = translate_to(repo, workdir, "RepoProgram")
        except (translate.Unsupported, SyntaxError, OSError, UnicodeError) as e:
            failures.append({"kind": "translator", "detail": "the translator refuses the sources (fail-closed): %s: %s"
                             % (type(e).__name__, e)})
        # ---- 3. the implementation side, in a subprocess (runs concurrently with coqc) --------
        pool = cf.ThreadPoolExecutor(max_workers=4)
        mods = [{"name": n, "path": p} for n, _, p in translate.discover(repo, PKG)] if prog else []
        fut_survey = pool.submit(run_probe, "survey", repo, {"modules": mods}, scratch)
        # regression sites of repaired findings: driven again on every run
        corpus_sites = []
        cdir = os.path.join(core.CORPUS, "C20")
        if os.path.isdir(cdir):
            for fn in sorted(os.listdir(cdir)):
                if fn.endswith(".json"):
                    cc = json.load(open(os.path.join(cdir, fn)))
                    for s_ in cc["input"]["sites"]:
                        corpus_sites.append(dict(s_, corpus=fn))
        fut_corpus = pool.submit(run_probe, "drive", repo, {
            "violations": [dict(s_, path=s_.get("path") or [s_.get("method")]) for s_ in corpus_sites],
            "max_tries": 25 if tier == "quick" else 600}, scratch) if corpus_sites and prog else None
        model = None
        dumps = None
        sentinels = []
        if prog and ok:
            for i, (op, mmt, payload) in enumerate(mutate.choose(prog, rng, tier)):
                sm = mutate.apply(repo, PKG, workdir, i, op, mmt, payload)
                if sm:
                    sentinels.append(sm)

            def do_sentinel(sm):
                translate_to(sm["repo"], workdir, sm["progmod"])
                rc, out, err = compile_program(workdir, sm["progmod"])
                if rc != 0:
                    return "mutant program does not compile: " + (out + err)[-800:]
                return model_violations(workdir, sm["progmod"])
            fut_sent = [(sm, pool.submit(do_sentinel, sm)) for sm in sentinels]
            rc, out, err = compile_program(workdir, "RepoProgram")
            if rc != 0:
                failures.append({"kind": "translator", "detail": "generated RepoProgram.v does not compile: %s" % (out + err)[-1500:]})
            else:
                try:
                    model = model_violations(workdir, "RepoProgram")
                    rc, out, err = coq_eval(workdir, "RepoProgram", "Dump",
                                            "Eval vm_compute in (dump_namespaces repo).\n"
                                            "Eval vm_compute in (dump_scopes repo).\n"
                                            "Eval vm_compute in (dump_classes repo).\n"
                                            "Eval vm_compute in (dump_attr_sites repo).\n")
                    if rc != 0:
                        raise RuntimeError((out + err)[-1500:])
                    dumps = coqparse.eval_blocks(out)
                except Exception as e:  # noqa
                    failures.append({"kind": "harness", "detail": "Coq evaluation failed: %s" % str(e)[-1500:]})
            # ---- 4. repo_clean / repo_ok_modulo / repo_ok in the work directory ---------------
            if model is not None:
                expected = [v for v in model if site_key(v) in known_keys]
                new_model = [v for v in model if site_key(v) not in known_keys]
                body = ("Definition known : list violation := [%s].\n"
                        "Theorem repo_clean : check repo = known.\nProof. vm_compute. reflexivity. Qed.\n"
                        "Print Assumptions repo_clean.\n"
                        "Theorem repo_ok_modulo : ok_modulo repo known.\n"
                        "Proof. rewrite <- repo_clean. exact (check_lists_all repo). Qed.\n"
                        "Print Assumptions repo_ok_modulo.\n") % ";\n  ".join(viol_coq(v) for v in expected)
                names = ["repo_clean", "repo_ok_modulo"]
                if not expected:
                    body += ("Theorem repo_ok : program_ok repo.\nProof. exact (check_sound repo repo_clean). Qed.\n"
                             "Print Assumptions repo_ok.\n")
                    names.append("repo_ok")
                rc, out, err = coq_eval(workdir, "RepoProgram", "RepoClean", body)
                closed = out.count("Closed under the global context")
                for i, n in enumerate(names):
                    theorems.append({"name": n, "closed": rc == 0 and closed == len(names), "axioms": [],
                                     "file": "gen/RepoClean.v (regenerated on every run)"})
                if rc != 0 or closed != len(names):
                    failures.append({"kind": "theorem",
                                     "detail": "repo_clean no longer checks: check repo = the recorded list (%d entries) fails; "
                                               "the checker computes %d violation(s), %d of them new"
                                               % (len(expected), len(model), len(new_model)),
                                     "model_violations": new_model[:40], "log": (out + err)[-800:]})
                    if not new_model:
                        failures.append({"kind": "harness", "detail": "repo_clean failed although the evaluated list equals the recorded one"})
                elif new_model:
                    failures.append({"kind": "harness", "detail": "repo_clean checked although the evaluated list has unrecorded entries"})
            # ---- sentinel: the pipeline must notice a deleted import --------------------------------
            for sentinel, fut in fut_sent:
                try:
                    sres = fut.result()
                except Exception as e:  # noqa
                    sres = "sentinel run crashed: %s" % e
                if isinstance(sres, str):
                    failures.append({"kind": "harness", "detail": sres})
                else:
                    hit = [v for v in sres if v.get("name") == sentinel["name"]
                           and site_key(v) not in {site_key(x) for x in (model or [])}]
                    sentinel["reported"] = bool(hit)
                    sentinel["violations"] = len(sres)
                    if not hit:
                        failures.append({"kind": "harness", "detail": "self-test: mutation %s of %s line %d (%r -> %r) was not reported by the pipeline"
                                         % (sentinel["operator"], sentinel["module"], sentinel["line"], sentinel["before"], sentinel["after"])})
        survey = fut_survey.result()
        # ---- 5. import / implementation-side verdict ------------------------------------------------
        impl = []
        if "probe_error" in survey:
            failures.append({"kind": "harness", "detail": "runtime probe failed: %s" % survey["probe_error"]})
        elif "import_error" in survey:
            ie = survey["import_error"]
            d = {"kind": "import", "module": ie["module"], "type": ie["type"], "msg": ie["msg"]}
            failures.append({"kind": "oracle", "detail": describe(d) + " — the failing input is `import %s`" % ie["module"],
                             "case": {"stream": None, "tag": "import", "input": d}, "obs": {"raise": ie["type"], "traceback": ie["traceback"]}})
        else:
            idx = validate.scope_index(prog) if prog else {}
            for u in survey["unbound"]:
                impl.append({"kind": "unbound", "module": u["module"], "qualname": u["qualname"], "line": u["line"], "name": u["name"]})
            for u in survey["self_attr"]:
                impl.append({"kind": "self_attr", "module": u["module"], "target": u["target"], "def": u["def"],
                             "method": u["method"], "line": u["line"], "name": u["attr"]})
            for u in survey.get("attr_missing", []):
                impl.append({"kind": "attr", "module": u["module"], "qualname": u["qualname"], "line": u["line"],
                             "base": u["base"], "name": u["name"]})
            for u in survey["all_missing"]:
                impl.append({"kind": "all_entry", "module": u["module"], "name": u["name"]})
            for u in survey["not_exposed"]:
                impl.append({"kind": "not_exposed", "module": u["module"], "name": u["name"]})

            # ---- 6. model verdict vs implementation verdict ------------------------------------------
            def cmp_key(d, from_model):
                k = d["kind"]
                if k == "unbound":
                    if from_model:
                        es = idx.get((d["module"], tuple(d["path"]), d["line"]), [])
                        owner = es[0]["owner"] if es else ".".join(d["path"])
                        is_cls = bool(es) and es[0]["scope"].kind == translate.KCLASS
                        return ("unbound", d["module"], owner, d["name"], is_cls)
                    return ("unbound", d["module"], d["qualname"], d["name"], False)
                if k == "attr":
                    if from_model:
                        es = idx.get((d["module"], tuple(d["path"]), d["line"]), [])
                        owner = es[0]["owner"] if es else ".".join(d["path"])
                        is_cls = bool(es) and es[0]["scope"].kind == translate.KCLASS
                        return ("attr", d["module"], owner, d["base"], d["name"], is_cls)
                    return ("attr", d["module"], d["qualname"], d["base"], d["name"], False)
                if k == "self_attr":
                    return ("self_attr", d["target"], d["def"], d["method"], d["name"])
                return (k, d["module"], d.get("name"))
            if model is not None:
                mk = {}
                for v in model:
                    mk.setdefault(cmp_key(v, True), v)
                ik = {}
                for v in impl:
                    ik.setdefault(cmp_key(v, False), v)
                for k, v in mk.items():
                    if k in ik:
                        continue
                    if v["kind"] in ("unbound", "attr") and k[-1] is True:
                        notes.append("model-only (class body, executed at import): %s" % describe(v))
                        continue
                    if v["kind"] in ("unbound", "self_attr", "attr", "all_entry", "not_exposed"):
                        failures.append({"kind": "corr", "detail": "the model reports a violation that introspection of the imported package does not: %s" % describe(v), "model": v})
                    else:
                        # import-time events: the package imported, so the model is stricter than CPython here
                        failures.append({"kind": "corr", "detail": "the model reports an import-time problem but the package imports: %s" % describe(v), "model": v})
                for k, v in ik.items():
                    if k not in mk:
                        failures.append({"kind": "corr", "detail": "introspection of the imported package reports a violation the model does not: %s" % describe(v), "implementation": v})
                # attach the model's path to implementation entries (for driving / replay)
                for k, v in ik.items():
                    if k in mk and v["kind"] in ("unbound", "attr"):
                        v["path"] = mk[k]["path"]
            # ---- 7. cross-validation of translator + semantics -----------------------------------------
            if dumps is not None:
                ns_dump, sc_dump, cl_dump = dumps[:3]
                cov["class_or_module_attribute_sites"] = sum(len(l) for _, l in dumps[3])
                m1, n_scopes, n_names = validate.compare_symtable(prog, sc_dump)
                m2, n_ns = validate.compare_namespaces(ns_dump, survey)
                m3, n_fun = validate.compare_global_reads(prog, sc_dump, survey)
                m4, n_cls = validate.compare_classes(cl_dump, survey)
                cov["cross_validation"] = {"symtable_scopes": n_scopes, "symtable_names": n_names,
                                           "namespace_entries": n_ns, "functions_bytecode": n_fun, "classes": n_cls,
                                           "mismatches": len(m1) + len(m2) + len(m3) + len(m4)}
                for m in (m1 + m2 + m3 + m4)[:30]:
                    failures.append({"kind": "corr", "detail": "translator/semantics disagree with CPython: %s" % json.dumps(m)[:600]})
            # ---- 8. drive every implementation-side violation to its exception --------------------------
            new_impl = [v for v in impl if site_key(_norm(v)) not in known_keys]
            to_drive = [v for v in impl if v["kind"] in ("unbound", "self_attr", "attr")]
            if to_drive:
                drv = run_probe("drive", repo, {"violations": [
                    dict(v, path=v.get("path") or v.get("qualname", "").replace(".<locals>", "").split("."))
                    for v in to_drive]}, scratch)
                for v, r in zip(to_drive, drv.get("results", [])):
                    for f in ("reached", "call", "exception", "tried", "note", "still_unbound"):
                        if f in r:
                            v[f] = r[f]
            if fut_corpus is not None:
                cres = fut_corpus.result()
                back = [r for r in cres.get("results", []) if r.get("reached")]
                cov["corpus_sites_driven"] = len(cres.get("results", []))
                for r in back:
                    if not any(site_key(_norm(v)) == site_key(_norm(r)) for v in impl):
                        failures.append({"kind": "oracle", "detail": "regression of a repaired finding (%s): %s — %s raises %s" % (
                            r.get("corpus"), describe(r), r["call"]["function"], r["exception"]),
                            "case": {"stream": None, "tag": "corpus:" + str(r.get("corpus")), "input": _norm(r)},
                            "obs": {k: r[k] for k in ("reached", "call", "exception") if k in r}})
            known_hits = {}
            for v in impl:
                fid = known_keys.get(site_key(_norm(v)))
                if fid:
                    known_hits[fid] = known_hits.get(fid, 0) + 1
                    continue
                det = describe(v)
                if v.get("reached"):
                    det += " — reproduced: %s with self=%s args=%s raises %s" % (
                        v["call"]["function"], v["call"].get("self"), v["call"]["args"], v["exception"])
                failures.append({"kind": "oracle", "detail": det, "case": {"stream": None, "tag": "violation", "input": _norm(v)},
                                 "obs": {k: v[k] for k in ("reached", "call", "exception", "still_unbound", "note") if k in v}})
            for f in known:
                if known_hits.get(f["id"]):
                    print("KNOWN-FINDING: property=C20 %s [%s; %d site(s) this run]" % (f["what"], f["id"], known_hits[f["id"]]))
                else:
                    notes.append("known finding %s did not reproduce in this run" % f["id"])
            cov["known_findings_hit"] = known_hits
        pool.shutdown(wait=False)

        # ---- obligations ---------------------------------------------------------------------------------
        kinds = {f["kind"] for f in failures}
        obligations = len(theorems) + 3
        discharged = sum(1 for r in theorems if r["closed"])
        if "translator" not in kinds and "corr" not in kinds and dumps is not None:
            discharged += 1      # translator + semantics validated against CPython with zero mismatches
        if model is not None and not [f for f in failures if f["kind"] == "corr" and ("model" in f or "implementation" in f)]:
            discharged += 1      # model verdict = implementation verdict
        if sentinels and all(sm.get("reported") for sm in sentinels):
            discharged += 1      # every self-test mutation was reported
        # ---- verdict ----------------------------------------------------------------------------------------
        exit_code = 0
        if failures:
            exit_code = 1
            replay_path = os.path.join(core.REPLAYS, "C20-%s-seed%d.json" % (tier, seed))
            has_input = any(f["kind"] == "oracle" for f in failures)
            with open(replay_path, "w") as fh:
                json.dump({"property": "C20", "tier": tier, "seed": seed, "repo": repo,
                           "no_failing_input_found": not has_input,
                           "lost": [f["detail"] for f in failures if f["kind"] != "oracle"],
                           "failures": failures[:60]}, fh, indent=1, default=str)
            rel = os.path.relpath(replay_path, core.VERIF)
            print("VIOLATION property=C20 replay=%s%s" % (rel, "" if has_input else " no-failing-input-found"))
            for f in failures[:8]:
                print("  - [%s] %s" % (f["kind"], str(f["detail"])[:400]))
        # ---- evidence -----------------------------------------------------------------------------------------
        scopes, loads, attrs = count_sites(prog) if prog else (0, 0, 0)
        nglob = 0
        samples = []
        if dumps is not None:
            def walk(m, dn, path):
                nonlocal nglob
                _, nm, line, kind, lds, kids = dn
                g = [n for n, c in lds if c == "G"]
                nglob += len(g)
                if g and len(samples) < 6 and (len(path) + line) % 7 == seed % 7:
                    samples.append({"module": m, "scope": path + [nm], "line": line,
                                    "reads": {n: c for n, c in lds}})
                for k in kids:
                    walk(m, k, path + [nm])
            for m, trees in dumps[1]:
                for dn in trees:
                    walk(m, dn, [])
        if not samples and prog:
            samples.append({"modules": [mt.modname for mt in prog["modules"]]})
        ev = {
            "property_id": "C20", "tier": tier, "seed": seed, "level": "proof",
            "coverage": {
                "obligations": obligations, "discharged": discharged,
                "checker_cmd": "coqc -Q coq/theories N0 coq/theories/Props/C20.v (Print Assumptions) ; "
                               "python harness/n0v_scope/translate.py $N0V_REPO > gen/RepoProgram.v ; "
                               "coqc gen/RepoProgram.v gen/RepoClean.v (repo_clean by vm_compute, repo_ok by C20_check_sound)",
                "trusted_base": [
                    "Coq 8.16.1 kernel + coqc; vm_compute for repo_clean; no native_compute",
                    "harness/n0v_scope/translate.py (Python ast -> Scope.Lang.program, fail-closed): trusted, validated on every run against symtable, dis and the imported package",
                    "Scope/Sem.v import-time semantics and class tables (model definitions): validated on every run against dir(module), __all__ and live MROs",
                    "tables the program is parameterised by: dir(builtins), dir() of outside base classes, attributes of a plain instance (read from the running interpreter)",
                    "flow-insensitive binding inside a scope (a name assigned anywhere in a function counts as local; every branch of a module-level compound statement is taken)",
                    "harness: parser of coqc output, comparison code, known-finding matching",
                ],
                "theorems": theorems,
                "modules": len(prog["modules"]) if prog else 0,
                "skipped_test_modules": prog["skipped"] if prog else [],
                "scopes": scopes, "load_sites": loads, "attribute_sites": attrs,
                "programs": 1,
                "traces_validated_against_impl": sum(v for k, v in cov.get("cross_validation", {}).items() if k != "mismatches"),
                "evaluations": loads + attrs,
                "distinct_nontrivial": nglob,
                "rule": "every (scope, name) read site of every function/lambda/comprehension/class body of every library module "
                        "(test modules excluded) is enumerated by the translator and decided by the Gallina checker; non-trivial = "
                        "the read is classified as a global lookup (has to be found in the module namespace computed by the import "
                        "simulation, or in builtins); plus every self.x read of every method inherited by a leaf/exported class and "
                        "every __all__ entry",
                "samples": samples,
                "model_violations": model if model is not None else None,
                "implementation_violations": len(impl),
                "self_test": [{k: sm[k] for k in ("operator", "module", "name", "line", "before", "after", "reported", "violations") if k in sm} for sm in sentinels],
                "notes": notes,
                "exhaustive": True,
            },
            "assumptions": [
                "names reached only through eval()/getattr() strings (column formats, lambda texts) are outside static scope",
                "UnboundLocalError (use before assignment inside one function) is flow-dependent and not part of this property",
                "attributes of objects other than self (other modules' objects, arguments) are not checked",
            ],
            "wall_s": round(time.time() - t0, 2),
            "violations": len(failures),
        }
        ev["coverage"].update(cov)
        with open(os.path.join(core.EVIDENCE, "C20.json"), "w") as fh:
            json.dump(ev, fh, indent=1, default=str)
        print("C20 %s seed=%d: %d modules, %d scopes, %d read sites (%d global), model violations=%s, implementation violations=%d, "
              "%d/%d obligations, %d failure(s), %.1fs"
              % (tier, seed, ev["coverage"]["modules"], scopes, loads, nglob, len(model) if model is not None else "n/a",
                 len(impl), discharged, obligations, len(failures), time.time() - t0))
        return exit_code
    except Exception:  # noqa
        print("VIOLATION property=C20 replay=none no-failing-input-found")
        print("  - [harness] C20 driver crashed: %s" % traceback.format_exc()[-1500:])
        return 1
    finally:
        shutil.rmtree(workdir, ignore_errors=True)
        shutil.rmtree(scratch, ignore_errors=True)


def _norm(v):
    """implementation-side violation in the shape stored in replays / findings"""
    d = {k: v[k] for k in ("kind", "module", "path", "qualname", "line", "name", "target", "def", "method", "base") if k in v}
    if d.get("kind") in ("unbound", "attr") and "path" in d:
        d.pop("qualname", None)
    return d


def static_violations(repo):
    """translator + Gallina checker on the sources under [repo] (no import of the package)"""
    gen_root = os.path.join(coqrun.COQ, "gen")
    os.makedirs(gen_root, exist_ok=True)
    workdir = tempfile.mkdtemp(prefix="C20-replay-%d-" % os.getpid(), dir=gen_root)
    try:
        ok, log = coqrun.ensure_build(["Scope/Checker.v"])
        if not ok:
            raise RuntimeError("development does not build: " + log[-800:])
        translate_to(repo, workdir, "RepoProgram")
        rc, out, err = compile_program(workdir, "RepoProgram")
        if rc != 0:
            raise RuntimeError("RepoProgram.v does not compile: " + (out + err)[-800:])
        return model_violations(workdir, "RepoProgram")
    finally:
        shutil.rmtree(workdir, ignore_errors=True)


def replay(path):
    """bin/check --replay: implementation-side failures are re-examined on the live
    package (and driven to their exception again); model-side failures are
    re-evaluated by translating the current sources and running the checker"""
    data = json.load(open(path))
    prop = C20()
    prop.setup()
    still = 0
    try:
        model = None
        for f in data.get("failures", []):
            if f.get("kind") == "oracle" and "case" in f:
                obs = prop.observe(f["case"])
                d = prop.judge(f["case"], obs)
                print("[oracle] case=%s\n  observation=%s\n  -> %s" % (
                    json.dumps(f["case"], default=str)[:500], json.dumps(obs, default=str)[:500], d or "holds now"))
                still += 1 if d else 0
            elif f.get("model_violations") or f.get("model"):
                if model is None:
                    try:
                        model = static_violations(repo_dir())
                    except Exception as e:  # noqa
                        print("[%s] cannot re-evaluate the model: %s" % (f["kind"], str(e)[:500]))
                        still += 1
                        continue
                keys = {site_key(v) for v in model}
                want = f.get("model_violations") or [f["model"]]
                left = [v for v in want if site_key(v) in keys]
                print("[%s] %s\n  -> %d of %d recorded model violation(s) are still computed by `check`%s" % (
                    f["kind"], str(f["detail"])[:200], len(left), len(want),
                    "".join("\n     " + describe(v)[:200] for v in left[:5])))
                still += 1 if left else 0
            else:
                print("[%s] %s  (no input to replay: re-run the check)" % (f.get("kind"), str(f.get("detail"))[:300]))
                still += 1
    finally:
        prop.teardown()
    print("replay: %d of %d failure(s) still reproduce" % (still, len(data.get("failures", []))))
    return 1 if still else 0


class C20(Prop):
    id = "C20"
    props_file = "Props/C20.v"
    refuted_file = None
    case_timeout = 300
    rule = "see evidence"
    custom_main = staticmethod(main)
    custom_replay = staticmethod(replay)

    # --- used by `bin/check --replay`: re-examine one recorded site on the implementation ------
    def setup(self):
        self.scratch = tempfile.mkdtemp(prefix="n0v-c20-")

    def teardown(self):
        shutil.rmtree(getattr(self, "scratch", ""), ignore_errors=True)

    def run_impl(self, case):
        d = case["input"]
        repo = repo_dir()
        mods = [{"name": n, "path": p} for n, _, p in translate.discover(repo, PKG)]
        survey = run_probe("survey", repo, {"modules": mods}, self.scratch)
        if "import_error" in survey:
            return {"ok": {"import_error": survey["import_error"]}}
        if d["kind"] == "import":
            return {"ok": {"imports": True}}
        still = False
        if d["kind"] == "unbound":
            owner = None
            for u in survey["unbound"]:
                if u["module"] == d["module"] and u["name"] == d["name"]:
                    still = True
                    owner = u["qualname"]
        elif d["kind"] == "self_attr":
            still = any(u["target"] == d["target"] and u["method"] == d["method"] and u["attr"] == d["name"]
                        for u in survey["self_attr"])
        elif d["kind"] == "attr":
            still = any(u["module"] == d["module"] and u["base"] == d["base"] and u["name"] == d["name"]
                        for u in survey.get("attr_missing", []))
        elif d["kind"] == "all_entry":
            still = any(u["module"] == d["module"] and u["name"] == d["name"] for u in survey["all_missing"])
        elif d["kind"] == "not_exposed":
            still = any(u["module"] == d["module"] and u["name"] == d["name"] for u in survey["not_exposed"])
        res = {"still": still}
        if still and d["kind"] in ("unbound", "self_attr", "attr"):
            drv = run_probe("drive", repo, {"violations": [dict(d, path=d.get("path") or d.get("qualname", "").split("."))]}, self.scratch)
            if drv.get("results"):
                res.update({k: drv["results"][0][k] for k in ("reached", "call", "exception") if k in drv["results"][0]})
        return {"ok": res}

    def oracle(self, case, obs):
        r = obs.get("ok", {})
        if "import_error" in r:
            return "importing the package fails: %s: %s" % (r["import_error"]["type"], r["import_error"]["msg"])
        if r.get("still"):
            return describe(case["input"]) + ((" — reproduced: %s" % r.get("exception")) if r.get("reached") else "")
        return None


PROP = C20
