"""Parser for the values `coqc` prints for `Eval vm_compute in ...` over the C20
types: strings, numbers, lists, tuples, constructor applications.

  [a; b]            -> [a, b]
  (a, b, c)         -> (a, b, c)
  "abc"             -> "abc"
  12%N / 12         -> 12
  VUnbound "m" [..] 3 "x"   -> ("VUnbound", "m", [..], 3, "x")
  None / true       -> ("None",) / ("true",)
"""
import re

_TOK = re.compile(r'\s*(?:("(?:[^"]|"")*")(?:%string)?|(\d+)(?:%[A-Za-z_]+)?|([A-Za-z_][A-Za-z0-9_\'.]*)|(\[|\]|\(|\)|;|,))')


class ParseError(Exception):
    pass


def tokenize(s):
    pos, out = 0, []
    s = s.rstrip()
    while pos < len(s):
        m = _TOK.match(s, pos)
        if not m:
            if s[pos:].strip() == "":
                break
            raise ParseError("cannot tokenize at %r" % s[pos:pos + 40])
        pos = m.end()
        if m.group(1) is not None:
            out.append(("s", m.group(1)[1:-1].replace('""', '"')))
        elif m.group(2) is not None:
            out.append(("n", int(m.group(2))))
        elif m.group(3) is not None:
            out.append(("i", m.group(3)))
        else:
            out.append(("p", m.group(4)))
    return out


class _P:
    def __init__(self, toks):
        self.t, self.i = toks, 0

    def peek(self):
        return self.t[self.i] if self.i < len(self.t) else ("e", None)

    def eat(self, kind=None, val=None):
        k, v = self.peek()
        if (kind and k != kind) or (val is not None and v != val):
            raise ParseError("expected %s %s, got %s %s at token %d" % (kind, val, k, v, self.i))
        self.i += 1
        return v

    def atom(self):
        k, v = self.peek()
        if k == "s" or k == "n":
            self.i += 1
            return v
        if k == "i":
            self.i += 1
            return ("@", v)
        if k == "p" and v == "[":
            self.i += 1
            out = []
            if self.peek() == ("p", "]"):
                self.i += 1
                return out
            while True:
                out.append(self.term())
                k2, v2 = self.peek()
                self.i += 1
                if (k2, v2) == ("p", "]"):
                    return out
                if (k2, v2) != ("p", ";"):
                    raise ParseError("expected ; or ] in list")
        if k == "p" and v == "(":
            self.i += 1
            items = [self.term()]
            while self.peek() == ("p", ","):
                self.i += 1
                items.append(self.term())
            self.eat("p", ")")
            return items[0] if len(items) == 1 else tuple(items)
        raise ParseError("unexpected token %s %s" % (k, v))

    def term(self):
        first = self.atom()
        args = []
        while True:
            k, v = self.peek()
            if k in ("s", "n", "i") or (k == "p" and v in "[("):
                args.append(self.atom())
            else:
                break
        if isinstance(first, tuple) and len(first) == 2 and first[0] == "@":
            return (first[1],) + tuple(_unat(a) for a in args)
        if args:
            raise ParseError("application of a non-identifier")
        return first


def _unat(a):
    if isinstance(a, tuple) and len(a) == 2 and a[0] == "@":
        return (a[1],)
    return a


def parse(s):
    p = _P(tokenize(s))
    v = p.term()
    if p.peek()[0] != "e":
        raise ParseError("trailing tokens")
    return v


_BLOCK = re.compile(r"^\s*= (.*?)\n\s*: ", re.S | re.M)


def eval_blocks(stdout):
    """the printed values of successive `Eval vm_compute in` commands"""
    return [parse(m.group(1)) for m in _BLOCK.finditer(stdout)]
