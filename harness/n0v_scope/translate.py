"""C20 translator: Python source files of a package -> a Coq term of type
N0.Scope.Lang.program (the name-binding skeleton).

Purely syntactic (``ast``): it records *where* names are bound, declared,
read, and which ``base.attr`` pairs are read / written, per scope; and the
ordered import-time events of each module body.  Everything semantic (what a
star import brings in, LEGB, class ancestors) is decided in Gallina
(Scope/Sem.v, Scope/Checker.v).

Fail-closed: a syntax node it does not know raises ``Unsupported`` and the
check fails; nothing is silently dropped.

The only things looked up outside the package are tables the program is
parameterised by: ``dir(builtins)``, the attributes every instance has, and
``dir()`` of classes *outside* the package that package classes inherit from
(``dict``, ``list``, ``collections.abc.MutableSet`` ...).
"""
import ast
import builtins
import importlib
import os

KFUN, KLAMBDA, KCOMP, KCLASS, KMODULE = "KFun", "KLambda", "KComp", "KClass", "KModule"


class Unsupported(Exception):
    pass


def mangle(name, cls):
    """Python's private-name mangling inside a class body"""
    if cls is None or not name.startswith("__") or name.endswith("__") or "." in name:
        return name
    stripped = cls.lstrip("_")
    if not stripped:
        return name
    return "_" + stripped + name


def catches_name_error(node):
    """1 if a handler of this try statement names NameError explicitly (the
    "is it defined yet?" idiom): reads in its body are probes, not references"""
    for h in node.handlers:
        types = h.type.elts if isinstance(h.type, ast.Tuple) else [h.type]
        for t in types:
            if isinstance(t, ast.Name) and t.id in ("NameError", "UnboundLocalError"):
                return 1
    return 0


class Scope:
    def __init__(self, kind, name, line, parent, cls):
        self.kind, self.name, self.line, self.parent = kind, name, line, parent
        self.cls = cls                  # innermost enclosing class name (for mangling)
        self.cid = ""
        self.bases = []
        self.decos = []
        self.params = []
        self.binds = []
        self.globals = []
        self.nonlocals = []
        self.loads = []
        self.attrs = []
        self.attr_stores = []
        self.children = []
        self.guarded = []               # reads under "except NameError": deliberate probes, not checked

    def qualname(self):
        parts, s = [], self
        while s is not None and s.kind != KMODULE:
            parts.append(s.name)
            s = s.parent
        return ".".join(reversed(parts))


# expression nodes whose children are simply visited
_TRANSPARENT = (
    ast.BoolOp, ast.BinOp, ast.UnaryOp, ast.IfExp, ast.Dict, ast.Set, ast.Await, ast.Yield,
    ast.YieldFrom, ast.Compare, ast.Call, ast.FormattedValue, ast.JoinedStr, ast.Constant,
    ast.Subscript, ast.Starred, ast.List, ast.Tuple, ast.Slice, ast.keyword,
)
_LEAF = (ast.expr_context, ast.boolop, ast.operator, ast.unaryop, ast.cmpop)


class ModuleTranslator:
    def __init__(self, modname, is_pkg, source, filename):
        self.modname = modname
        self.is_pkg = is_pkg
        self.tree = ast.parse(source, filename)
        self.future_annotations = any(
            isinstance(s, ast.ImportFrom) and s.module == "__future__" and any(a.name == "annotations" for a in s.names)
            for s in self.tree.body)
        self.mod = Scope(KMODULE, "<module>", 0, None, None)
        self.body = []                 # mstmt list
        self.guard = 0                 # > 0 inside a try body whose handlers name NameError
        self.ext_base_candidates = []  # dotted paths of outside classes used as bases

    # ---- names -----------------------------------------------------------------
    def resolve_from(self, node):
        """absolute name of the module a ``from ... import`` refers to"""
        if node.level == 0:
            return node.module
        pkg = self.modname if self.is_pkg else self.modname.rpartition(".")[0]
        parts = pkg.split(".")
        if node.level - 1 > 0:
            if node.level - 1 >= len(parts):
                raise Unsupported("relative import beyond top-level package at line %d" % node.lineno)
            parts = parts[:len(parts) - (node.level - 1)]
        base = ".".join(parts)
        return base + "." + node.module if node.module else base

    # ---- expressions -------------------------------------------------------------
    def expr(self, node, sc):
        if node is None:
            return
        if isinstance(node, ast.Name):
            n = mangle(node.id, sc.cls)
            if isinstance(node.ctx, ast.Load):
                if self.guard:
                    sc.guarded.append(n)
                else:
                    sc.loads.append(n)
            elif isinstance(node.ctx, ast.Store):
                sc.binds.append(n)
            else:  # Del: reads and (for scoping) binds
                sc.loads.append(n)
                sc.binds.append(n)
            return
        if isinstance(node, ast.Attribute):
            if isinstance(node.value, ast.Name):
                pair = (mangle(node.value.id, sc.cls), mangle(node.attr, sc.cls))
                if isinstance(node.ctx, ast.Load):
                    sc.attrs.append(pair)
                elif isinstance(node.ctx, ast.Store):
                    sc.attr_stores.append(pair)
                else:
                    sc.attrs.append(pair)
            self.expr(node.value, sc)
            return
        if isinstance(node, ast.Lambda):
            self.arguments_outer(node.args, sc, annotations=False)
            child = Scope(KLAMBDA, "lambda", node.lineno, sc, sc.cls)
            child.params = self.param_names(node.args, sc.cls)
            sc.children.append(child)
            self.expr(node.body, child)
            return
        if isinstance(node, (ast.ListComp, ast.SetComp, ast.GeneratorExp, ast.DictComp)):
            nm = {ast.ListComp: "listcomp", ast.SetComp: "setcomp", ast.GeneratorExp: "genexpr",
                  ast.DictComp: "dictcomp"}[type(node)]
            # the first iterable is evaluated in the enclosing scope
            self.expr(node.generators[0].iter, sc)
            child = Scope(KCOMP, nm, node.lineno, sc, sc.cls)
            sc.children.append(child)
            for i, g in enumerate(node.generators):
                if i > 0:
                    self.expr(g.iter, child)
                self.expr(g.target, child)
                for c in g.ifs:
                    self.expr(c, child)
            if isinstance(node, ast.DictComp):
                self.expr(node.key, child)
                self.expr(node.value, child)
            else:
                self.expr(node.elt, child)
            return
        if isinstance(node, ast.NamedExpr):
            self.expr(node.value, sc)
            tgt = sc
            while tgt.kind == KCOMP:
                tgt = tgt.parent
            n = mangle(node.target.id, sc.cls)
            tgt.binds.append(n)
            if tgt is not sc:
                # inside the comprehension the name refers to the enclosing function's variable
                if tgt.kind in (KCLASS,):
                    raise Unsupported("assignment expression in a class-level comprehension")
            return
        if isinstance(node, _TRANSPARENT):
            for ch in ast.iter_child_nodes(node):
                if isinstance(ch, _LEAF):
                    continue
                self.expr(ch, sc)
            return
        raise Unsupported("expression node %s at line %s" % (type(node).__name__, getattr(node, "lineno", "?")))

    def pattern(self, p, sc):
        """match-statement patterns: capture names bind, value/class expressions are read"""
        t = type(p).__name__
        if t == "MatchValue":
            self.expr(p.value, sc)
        elif t == "MatchSingleton":
            pass
        elif t == "MatchSequence":
            for x in p.patterns:
                self.pattern(x, sc)
        elif t == "MatchMapping":
            for k in p.keys:
                self.expr(k, sc)
            for x in p.patterns:
                self.pattern(x, sc)
            if p.rest:
                sc.binds.append(mangle(p.rest, sc.cls))
        elif t == "MatchClass":
            self.expr(p.cls, sc)
            for x in p.patterns + p.kwd_patterns:
                self.pattern(x, sc)
        elif t == "MatchStar":
            if p.name:
                sc.binds.append(mangle(p.name, sc.cls))
        elif t == "MatchAs":
            if p.pattern is not None:
                self.pattern(p.pattern, sc)
            if p.name:
                sc.binds.append(mangle(p.name, sc.cls))
        elif t == "MatchOr":
            for x in p.patterns:
                self.pattern(x, sc)
        else:
            raise Unsupported("pattern node %s" % t)

    def param_names(self, a, cls):
        names = [x.arg for x in a.posonlyargs + a.args]
        if a.vararg:
            names.append(a.vararg.arg)
        names += [x.arg for x in a.kwonlyargs]
        if a.kwarg:
            names.append(a.kwarg.arg)
        return [mangle(n, cls) for n in names]

    def arguments_outer(self, a, sc, annotations=True):
        """defaults and annotations are evaluated in the enclosing scope"""
        for d in a.defaults:
            self.expr(d, sc)
        for d in a.kw_defaults:
            if d is not None:
                self.expr(d, sc)
        if annotations and not self.future_annotations:
            for x in a.posonlyargs + a.args + a.kwonlyargs + [a.vararg, a.kwarg]:
                if x is not None and x.annotation is not None:
                    self.expr(x.annotation, sc)

    # ---- statements ----------------------------------------------------------------
    def block(self, stmts, sc):
        for s in stmts:
            self.stmt(s, sc)

    def funcdef(self, node, sc):
        if getattr(node, "type_params", None):
            raise Unsupported("type parameters at line %d" % node.lineno)
        for d in node.decorator_list:
            self.expr(d, sc)
        self.arguments_outer(node.args, sc)
        if node.returns is not None and not self.future_annotations:
            self.expr(node.returns, sc)
        sc.binds.append(mangle(node.name, sc.cls))
        child = Scope(KFUN, node.name, node.lineno, sc, sc.cls)
        child.decos = [d.id if isinstance(d, ast.Name) else "?" for d in node.decorator_list]
        child.params = self.param_names(node.args, sc.cls)
        sc.children.append(child)
        self.block(node.body, child)
        return child

    def classdef(self, node, sc):
        if getattr(node, "type_params", None):
            raise Unsupported("type parameters at line %d" % node.lineno)
        for d in node.decorator_list:
            self.expr(d, sc)
        for b in node.bases:
            self.expr(b, sc)
        for k in node.keywords:
            self.expr(k.value, sc)
        sc.binds.append(mangle(node.name, sc.cls))
        child = Scope(KCLASS, node.name, node.lineno, sc, node.name)
        child.decos = [d.id if isinstance(d, ast.Name) else "?" for d in node.decorator_list]
        child.cid = self.modname + ":" + (sc.qualname() + "." if sc.kind != KMODULE else "") + node.name
        for b in node.bases:
            child.bases.append(self.bexpr(b, sc))
        if any(k.arg == "metaclass" for k in node.keywords):
            child.bases.append(("BOther",))
        sc.children.append(child)
        self.block(node.body, child)
        return child

    def bexpr(self, b, sc):
        if isinstance(b, ast.Name):
            return ("BName", mangle(b.id, sc.cls))
        path, x = [], b
        while isinstance(x, ast.Attribute):
            path.append(x.attr)
            x = x.value
        if isinstance(x, ast.Name) and path:
            return ("BDotted", [x.id] + list(reversed(path)))
        return ("BOther",)

    def import_binds(self, node, sc):
        """names bound by an import statement in a non-module scope"""
        for a in node.names:
            if a.name == "*":
                raise Unsupported("star import outside module level at line %d" % node.lineno)
            if isinstance(node, ast.Import):
                n = a.asname if a.asname else a.name.split(".")[0]
            else:
                n = a.asname if a.asname else a.name
            sc.binds.append(mangle(n, sc.cls))

    def stmt(self, node, sc):
        t = type(node)
        if t in (ast.FunctionDef, ast.AsyncFunctionDef):
            self.funcdef(node, sc)
        elif t is ast.ClassDef:
            self.classdef(node, sc)
        elif t is ast.Return:
            self.expr(node.value, sc)
        elif t is ast.Delete:
            for x in node.targets:
                self.expr(x, sc)
        elif t is ast.Assign:
            self.expr(node.value, sc)
            for x in node.targets:
                self.expr(x, sc)
        elif t is ast.AugAssign:
            self.expr(node.value, sc)
            # the target is read and written
            tgt = node.target
            if isinstance(tgt, ast.Name):
                sc.loads.append(mangle(tgt.id, sc.cls))
            elif isinstance(tgt, ast.Attribute) and isinstance(tgt.value, ast.Name):
                sc.attrs.append((mangle(tgt.value.id, sc.cls), mangle(tgt.attr, sc.cls)))
            self.expr(tgt, sc)
        elif t is ast.AnnAssign:
            self.expr(node.value, sc)
            simple_local = isinstance(node.target, ast.Name) and sc.kind in (KFUN, KLAMBDA, KCOMP)
            if not self.future_annotations and not simple_local:
                self.expr(node.annotation, sc)
            if node.value is not None or isinstance(node.target, ast.Name):
                self.expr(node.target, sc)
        elif t in (ast.For, ast.AsyncFor):
            self.expr(node.iter, sc)
            self.expr(node.target, sc)
            self.block(node.body, sc)
            self.block(node.orelse, sc)
        elif t is ast.While:
            self.expr(node.test, sc)
            self.block(node.body, sc)
            self.block(node.orelse, sc)
        elif t is ast.If:
            self.expr(node.test, sc)
            self.block(node.body, sc)
            self.block(node.orelse, sc)
        elif t in (ast.With, ast.AsyncWith):
            for it in node.items:
                self.expr(it.context_expr, sc)
                self.expr(it.optional_vars, sc)
            self.block(node.body, sc)
        elif t is ast.Raise:
            self.expr(node.exc, sc)
            self.expr(node.cause, sc)
        elif t in (ast.Try, getattr(ast, "TryStar", ast.Try)):
            g = catches_name_error(node)
            self.guard += g
            self.block(node.body, sc)
            self.guard -= g
            for h in node.handlers:
                self.expr(h.type, sc)
                if h.name:
                    sc.binds.append(mangle(h.name, sc.cls))
                self.block(h.body, sc)
            self.block(node.orelse, sc)
            self.block(node.finalbody, sc)
        elif t is ast.Assert:
            self.expr(node.test, sc)
            self.expr(node.msg, sc)
        elif t in (ast.Import, ast.ImportFrom):
            self.import_binds(node, sc)
        elif t is ast.Global:
            if sc.kind != KMODULE:
                sc.globals += [mangle(n, sc.cls) for n in node.names]
        elif t is ast.Nonlocal:
            sc.nonlocals += [mangle(n, sc.cls) for n in node.names]
        elif t is ast.Expr:
            self.expr(node.value, sc)
        elif t in (ast.Pass, ast.Break, ast.Continue):
            pass
        elif t is getattr(ast, "Match", None):
            self.expr(node.subject, sc)
            for case in node.cases:
                self.pattern(case.pattern, sc)
                self.expr(case.guard, sc)
                self.block(case.body, sc)
        else:
            raise Unsupported("statement node %s at line %s" % (t.__name__, getattr(node, "lineno", "?")))

    # ---- module level: ordered import-time events --------------------------------------
    def all_expr(self, e):
        if isinstance(e, (ast.Tuple, ast.List)) and all(isinstance(x, ast.Constant) and isinstance(x.value, str) for x in e.elts):
            return ("ALit", [x.value for x in e.elts])
        if isinstance(e, ast.Call) and isinstance(e.func, ast.Name) and e.func.id in ("list", "tuple") \
                and len(e.args) == 1 and not e.keywords:
            return self.all_expr(e.args[0])
        if isinstance(e, ast.BinOp) and isinstance(e.op, ast.Add):
            return ("ACat", self.all_expr(e.left), self.all_expr(e.right))
        if isinstance(e, ast.Attribute) and e.attr == "__all__" and isinstance(e.value, ast.Name):
            return ("ARef", e.value.id)
        return ("AUnknown",)

    def flush(self, l0, b0, skip_binds=()):
        """events for what the last simple statement did to the module scope"""
        loads = self.mod.loads[l0:]
        binds = self.mod.binds[b0:]
        if loads:
            self.body.append(("MUse", list(dict.fromkeys(loads))))
        for n in binds:
            if n not in skip_binds:
                self.body.append(("MBind", n))
        return loads, binds

    def mstmt(self, node):
        sc = self.mod
        t = type(node)
        l0, b0 = len(sc.loads), len(sc.binds)
        if t is ast.Import:
            for a in node.names:
                parts = a.name.split(".")
                execs = [".".join(parts[:i + 1]) for i in range(len(parts))]
                if a.asname:
                    self.body.append(("MImport", a.asname, a.name, execs))
                    sc.binds.append(a.asname)
                else:
                    self.body.append(("MImport", parts[0], parts[0], execs))
                    sc.binds.append(parts[0])
        elif t is ast.ImportFrom:
            target = self.resolve_from(node)
            if target == "__future__":
                for a in node.names:
                    self.body.append(("MBind", a.asname or a.name))
                    sc.binds.append(a.asname or a.name)
            elif any(a.name == "*" for a in node.names):
                self.body.append(("MStar", target))
            else:
                items = [(a.name, a.asname or a.name) for a in node.names]
                self.body.append(("MFrom", target, items, node.lineno, node.end_lineno))
                sc.binds += [b for _, b in items]
        elif t in (ast.FunctionDef, ast.AsyncFunctionDef):
            self.funcdef(node, sc)
            self.flush(l0, b0)
        elif t is ast.ClassDef:
            child = self.classdef(node, sc)
            loads = sc.loads[l0:]
            if loads:
                self.body.append(("MUse", list(dict.fromkeys(loads))))
            self.body.append(("MClass", node.name, child.cid))
        elif t is ast.Assign and any(isinstance(x, ast.Name) and x.id == "__all__" for x in node.targets):
            if len(node.targets) != 1:
                self.body.append(("MAll", ("AUnknown",)))
            self.expr(node.value, sc)
            self.flush(l0, b0)
            sc.binds.append("__all__")
            self.body.append(("MAll", self.all_expr(node.value)))
        elif t is ast.AugAssign and isinstance(node.target, ast.Name) and node.target.id == "__all__":
            self.expr(node.value, sc)
            self.flush(l0, b0)
            if isinstance(node.op, ast.Add):
                self.body.append(("MAllAdd", self.all_expr(node.value)))
            else:
                self.body.append(("MAll", ("AUnknown",)))
        elif t in (ast.If, ast.While):
            self.expr(node.test, sc)
            self.flush(l0, b0)
            for s in node.body + node.orelse:
                self.mstmt(s)
        elif t in (ast.For, ast.AsyncFor):
            self.expr(node.iter, sc)
            self.flush(l0, b0)
            l1, b1 = len(sc.loads), len(sc.binds)
            self.expr(node.target, sc)
            self.flush(l1, b1)
            for s in node.body + node.orelse:
                self.mstmt(s)
        elif t in (ast.With, ast.AsyncWith):
            for it in node.items:
                self.expr(it.context_expr, sc)
            self.flush(l0, b0)
            l1, b1 = len(sc.loads), len(sc.binds)
            for it in node.items:
                self.expr(it.optional_vars, sc)
            self.flush(l1, b1)
            for s in node.body:
                self.mstmt(s)
        elif t in (ast.Try, getattr(ast, "TryStar", ast.Try)):
            g = catches_name_error(node)
            self.guard += g
            for s in node.body:
                self.mstmt(s)
            self.guard -= g
            for h in node.handlers:
                l1, b1 = len(sc.loads), len(sc.binds)
                self.expr(h.type, sc)
                if h.name:
                    sc.binds.append(h.name)
                self.flush(l1, b1)
                for s in h.body:
                    self.mstmt(s)
            for s in node.orelse + node.finalbody:
                self.mstmt(s)
        elif t is ast.Delete:
            for x in node.targets:
                self.expr(x, sc)
            loads = sc.loads[l0:]
            if loads:
                self.body.append(("MUse", list(dict.fromkeys(loads))))
            for x in node.targets:
                if isinstance(x, ast.Name):
                    self.body.append(("MDel", x.id))
        else:
            self.stmt(node, sc)
            loads, binds = self.flush(l0, b0)
            if "__all__" in loads or "__all__" in binds:
                # __all__ manipulated in a way the model does not evaluate
                self.body.append(("MAll", ("AUnknown",)))

    def run(self):
        if self.is_pkg:
            self.body.append(("MBind", "__path__"))
        for s in self.tree.body:
            self.mstmt(s)
        return self


# ---- the outside world the program is parameterised by --------------------------------------

MODULE_IMPLICIT = ["__name__", "__doc__", "__package__", "__loader__", "__spec__", "__file__", "__builtins__"]


def instance_implicit():
    class _Plain:
        pass
    return sorted(set(dir(_Plain())))


def ext_class_dir(path):
    """dir() of the object named by a dotted path outside the package, or None"""
    parts = path.split(".")
    for i in range(len(parts) - 1, 0, -1):
        try:
            obj = importlib.import_module(".".join(parts[:i]))
        except Exception:
            continue
        try:
            for a in parts[i:]:
                obj = getattr(obj, a)
        except AttributeError:
            return None
        if isinstance(obj, type):
            return sorted(set(dir(obj)))
        return None
    return None


def is_test_name(short):
    return short in ("test", "tests", "conftest") or short.startswith("test_")


def discover(repo_dir, pkg, skipped=None):
    """[(module name, is_package, path)] with the root package first.  Test
    modules shipped inside the package directory (test/, tests/, test_*.py,
    conftest.py) are not library code and are left out (listed in [skipped])."""
    root = os.path.join(repo_dir, pkg)
    if not os.path.isfile(os.path.join(root, "__init__.py")):
        raise Unsupported("no package %s under %s" % (pkg, repo_dir))
    out = []
    for d, dirs, files in os.walk(root):
        if skipped is not None:
            skipped += [os.path.relpath(os.path.join(d, x), repo_dir) for x in sorted(dirs) if is_test_name(x)]
        dirs[:] = sorted(x for x in dirs if os.path.isfile(os.path.join(d, x, "__init__.py")) and not is_test_name(x))
        rel = os.path.relpath(d, repo_dir).replace(os.sep, ".")
        for f in sorted(files):
            if not f.endswith(".py"):
                continue
            if is_test_name(f[:-3]):
                if skipped is not None:
                    skipped.append(os.path.relpath(os.path.join(d, f), repo_dir))
                continue
            if f == "__init__.py":
                out.append((rel, True, os.path.join(d, f)))
            else:
                out.append((rel + "." + f[:-3], False, os.path.join(d, f)))
    out.sort(key=lambda x: (0 if x[1] and x[0] == pkg else 1, x[0]))
    return out


def translate_package(repo_dir, pkg="n0struct"):
    mods = []
    skipped = []
    for modname, is_pkg, path in discover(repo_dir, pkg, skipped):
        with open(path, encoding="utf-8") as fh:
            src = fh.read()
        mt = ModuleTranslator(modname, is_pkg, src, path).run()
        mt.path = path
        mods.append(mt)
    libnames = {m.modname for m in mods}
    # outside classes used as bases: every dotted reading a base expression can have
    import types as _types
    ext = {"builtins.object": sorted(set(dir(object))),
           "builtins.type": sorted(set(dir(type))),               # what every class object has
           "builtins.module": sorted(set(dir(_types.ModuleType)) | {"__dict__"})}   # what every module object has
    for mt in mods:
        imports = {}
        for ev in mt.body:
            if ev[0] == "MImport":
                imports[ev[1]] = ev[2]
            elif ev[0] == "MFrom" and ev[1] not in libnames:
                for a, b in ev[2]:
                    imports[b] = ev[1] + "." + a

        def walk(sc):
            if sc.kind == KCLASS:
                for b in sc.bases:
                    cands = []
                    if b[0] == "BName":
                        if b[1] in imports:
                            cands.append(imports[b[1]])
                        if hasattr(builtins, b[1]):
                            cands.append("builtins." + b[1])
                    elif b[0] == "BDotted":
                        head = imports.get(b[1][0], b[1][0])
                        cands.append(head + "." + ".".join(b[1][1:]))
                    for c in cands:
                        if c.split(".")[0] in {n.split(".")[0] for n in libnames}:
                            continue
                        if c not in ext:
                            d = ext_class_dir(c)
                            if d is not None:
                                ext[c] = d
            for ch in sc.children:
                walk(ch)
        walk(mt.mod)
    return {
        "pkg": pkg,
        "modules": mods,
        "builtins": sorted(dir(builtins)),
        "mod_implicit": MODULE_IMPLICIT,
        "inst_implicit": instance_implicit(),
        "ext_classes": ext,
        "skipped": skipped,
    }


# ---- Coq printer ----------------------------------------------------------------------------------

def q(s):
    if '"' in s or "\n" in s:
        raise Unsupported("name with a quote: %r" % s)
    return '"%s"' % s


def qlist(l):
    return "[" + "; ".join(q(x) for x in l) + "]"


def pairs(l):
    return "[" + "; ".join("(%s, %s)" % (q(a), q(b)) for a, b in l) + "]"


def uniq(l):
    return list(dict.fromkeys(l))


def coq_bexpr(b):
    if b[0] == "BName":
        return "BName %s" % q(b[1])
    if b[0] == "BDotted":
        return "BDotted %s" % qlist(b[1])
    return "BOther"


def coq_scope(sc, ind):
    pad = " " * ind
    kids = (";\n").join(coq_scope(c, ind + 2) for c in sc.children)
    return ("%s(Scope %s %s %d %s [%s] %s\n%s  %s %s %s %s\n%s  %s\n%s  %s %s\n%s  [%s])" % (
        pad, sc.kind, q(sc.name), sc.line, q(sc.cid), "; ".join(coq_bexpr(b) for b in sc.bases), qlist(sc.decos),
        pad, qlist(sc.params), qlist(uniq(sc.binds)), qlist(uniq(sc.globals)), qlist(uniq(sc.nonlocals)),
        pad, qlist(uniq(sc.loads)),
        pad, pairs(uniq(sc.attrs)), pairs(uniq(sc.attr_stores)),
        pad, ("\n" + kids + "\n" + pad + "  ") if kids else ""))


def coq_all(e):
    if e[0] == "ALit":
        return "(ALit %s)" % qlist(e[1])
    if e[0] == "ARef":
        return "(ARef %s)" % q(e[1])
    if e[0] == "ACat":
        return "(ACat %s %s)" % (coq_all(e[1]), coq_all(e[2]))
    return "AUnknown"


def coq_mstmt(ev):
    k = ev[0]
    if k == "MUse":
        return "MUse %s" % qlist(ev[1])
    if k == "MBind":
        return "MBind %s" % q(ev[1])
    if k == "MClass":
        return "MClass %s %s" % (q(ev[1]), q(ev[2]))
    if k == "MImport":
        return "MImport %s %s %s" % (q(ev[1]), q(ev[2]), qlist(ev[3]))
    if k == "MFrom":
        return "MFrom %s %s" % (q(ev[1]), pairs(ev[2]))
    if k == "MStar":
        return "MStar %s" % q(ev[1])
    if k == "MAll":
        return "MAll %s" % coq_all(ev[1])
    if k == "MAllAdd":
        return "MAllAdd %s" % coq_all(ev[1])
    if k == "MDel":
        return "MDel %s" % q(ev[1])
    raise Unsupported(k)


def to_coq(prog):
    out = ["(* generated by harness/n0v_scope/translate.py from the repository sources; do not edit *)",
           "From Coq Require Import List String NArith.",
           "From N0 Require Import Scope.Lang.",
           "Import ListNotations.",
           "Open Scope string_scope.", "Open Scope N_scope.", "Open Scope list_scope.", ""]
    names = []
    for i, mt in enumerate(prog["modules"]):
        par = mt.modname.rpartition(".")[0]
        short = mt.modname.rpartition(".")[2]
        nm = "mod_%d" % i
        names.append(nm)
        out.append("(* %s *)" % mt.modname)
        out.append("Definition %s : module := Module %s %s %s" % (
            nm, q(mt.modname), ("(Some %s)" % q(par)) if par else "None", q(short)))
        out.append("  [" + ";\n   ".join(coq_mstmt(e) for e in mt.body) + "]")
        out.append("  [\n" + ";\n".join(coq_scope(c, 4) for c in mt.mod.children) + "\n  ].")
        out.append("")
    out.append("Definition repo : program := Program %s" % q(prog["pkg"]))
    out.append("  [" + "; ".join(names) + "]")
    out.append("  " + qlist(prog["builtins"]))
    out.append("  " + qlist(prog["mod_implicit"]))
    out.append("  " + qlist(prog["inst_implicit"]))
    out.append("  [" + ";\n   ".join("(%s, %s)" % (q(k), qlist(v)) for k, v in sorted(prog["ext_classes"].items())) + "].")
    return "\n".join(out) + "\n"


def count_scopes(prog):
    def n(sc):
        return 1 + sum(n(c) for c in sc.children)
    return sum(sum(n(c) for c in mt.mod.children) for mt in prog["modules"])


if __name__ == "__main__":
    import sys
    p = translate_package(sys.argv[1] if len(sys.argv) > 1 else os.environ.get("N0V_REPO", "/repo"))
    sys.stdout.write(to_coq(p))
