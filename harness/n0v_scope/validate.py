"""Cross-validation of the C20 translator + Gallina semantics (both in the trusted
base of `repo_clean`) against CPython itself:

  * symtable  — CPython's own symbol-table pass over the same source: per scope,
                every referenced name must get the same classification
                (local / closure / global) from Scope.Checker.classify;
  * dis       — the names each compiled function looks up with LOAD_GLOBAL must
                be exactly the reads the model classifies as global;
  * import    — after really importing the package, dir(module) and __all__ of
                every module must equal the namespaces Sem.run_imports computes;
  * classes   — live __mro__ and "is leaf or exported" vs Sem.class_mro / Checker;
  * verdict   — the violations found by introspecting the live objects must be
                the violations `check` computes.
"""
import symtable
import sys

from . import translate as T

INLINED = ("listcomp", "setcomp", "dictcomp")
PYNAME = {"lambda": "<lambda>", "listcomp": "<listcomp>", "setcomp": "<setcomp>", "dictcomp": "<dictcomp>",
          "genexpr": "<genexpr>"}


# ---- python qualnames of the translator's scopes ----------------------------------------------

def scope_index(prog):
    """{(module, path tuple, line): dict(qualname=..., owner_qualname=..., scope=Scope)}
    owner = the nearest enclosing scope that has its own code object on this
    interpreter (comprehensions are inlined into functions from 3.12 on)."""
    inl = sys.version_info >= (3, 12)
    idx = {}

    def walk(mod, sc, path, qual_prefix, owner_q, parent_is_class_or_module):
        nm = PYNAME.get(sc.name, sc.name) if sc.kind != T.KCLASS and sc.kind != T.KFUN else sc.name
        q = qual_prefix + nm
        inlined_here = inl and sc.kind == T.KCOMP and sc.name in INLINED and not parent_is_class_or_module
        own = owner_q if inlined_here else q
        idx.setdefault((mod, tuple(path + [sc.name]), sc.line), []).append(
            {"qualname": q, "owner": own, "scope": sc, "inlined": inlined_here})
        child_prefix = q + ("." if sc.kind == T.KCLASS else ".<locals>.")
        if inlined_here:
            child_prefix = qual_prefix
        for c in sc.children:
            walk(mod, c, path + [sc.name], child_prefix, own, sc.kind == T.KCLASS)

    for mt in prog["modules"]:
        for c in mt.mod.children:
            walk(mt.modname, c, [], "", "<module>", True)
    return idx


# ---- symtable -------------------------------------------------------------------------------------------

def _sym_class(s):
    if s.is_global():
        return "G"
    if s.is_free():
        return "F"
    if s.is_local():
        return "L"
    return "?"


def compare_symtable(prog, coq_scopes):
    """coq_scopes: parsed dump_scopes: [(mname, [DNode...])].
    Returns (mismatches, number of scopes compared, number of names compared)."""
    mism, nscopes, nnames = [], 0, 0
    dump = {m: trees for m, trees in coq_scopes}
    for mt in prog["modules"]:
        with open(mt.path, encoding="utf-8") as fh:
            st = symtable.symtable(fh.read(), mt.path, "exec")
        trees = dump.get(mt.modname)
        if trees is None:
            mism.append({"module": mt.modname, "what": "module missing from the Coq dump"})
            continue

        def guarded_of(path, line):
            # reads under "except NameError" are left out of the model on purpose
            return set()

        def match(coq_kids, tr_kids, table, path):
            """coq_kids: DNode list, tr_kids: translator Scope list (same order), table: symtable block"""
            nonlocal nscopes, nnames
            sym_kids = list(table.get_children())
            used = [False] * len(sym_kids)
            extra_g = set()
            extra_guard = set()

            def absorb(dn, sc):
                _, nm, line, kind, loads, kids = dn
                for i, d in enumerate(sym_kids):
                    if not used[i] and d.get_name() == nm and d.get_lineno() == line:
                        used[i] = True
                        compare(dn, sc, d, path + [nm])
                        return
                if kind == ("KComp",) and nm in INLINED:
                    # inlined into the enclosing block by this interpreter
                    for n, c in loads:
                        if c == ("G",) or c == "G":
                            extra_g.add(n)
                    extra_guard.update(sc.guarded)
                    for k, ksc in zip(kids, sc.children):
                        absorb(k, ksc)
                else:
                    mism.append({"module": mt.modname, "scope": path + [nm], "line": line,
                                 "what": "scope of the model has no symtable counterpart"})

            for dn, sc in zip(coq_kids, tr_kids):
                absorb(dn, sc)
            for i, d in enumerate(sym_kids):
                if not used[i]:
                    mism.append({"module": mt.modname, "scope": path + [d.get_name()], "line": d.get_lineno(),
                                 "what": "symtable scope has no counterpart in the model"})
            return extra_g, extra_guard

        def compare(dn, sc, table, path):
            nonlocal nscopes, nnames
            _, nm, line, kind, loads, kids = dn
            extra_g, extra_guard = match(kids, sc.children, table, path)
            nscopes += 1
            mine = {}
            for n, c in loads:
                mine[n] = c if isinstance(c, str) else c[0]
            guarded = set(sc.guarded) | extra_guard
            theirs = {}
            for s in table.get_symbols():
                if s.get_name().startswith("."):
                    continue
                if s.is_referenced():
                    theirs[s.get_name()] = _sym_class(s)
            for n in sorted(set(mine) | set(theirs) | extra_g):
                a, b = mine.get(n), theirs.get(n)
                if a is None and n in extra_g:
                    a = "G"
                if n in guarded and a is None:
                    continue
                nnames += 1
                if a == b:
                    continue
                if a is None and b is not None and sys.version_info >= (3, 12) and any(
                        k[1] in INLINED for k in kids):
                    # a name read only inside an inlined comprehension: local/closure there
                    if b in ("L", "F"):
                        continue
                if a is None and b == "F" and n == "__class__" and "super" in mine:
                    # the compiler adds the implicit __class__ cell wherever super is named
                    continue
                if b is None and a is not None and n in extra_g:
                    # symtable does not always propagate "referenced" out of an inlined comprehension
                    continue
                mism.append({"module": mt.modname, "scope": path, "line": line, "name": n,
                             "model": a, "symtable": b})

        match(trees, mt.mod.children, st, [])
    return mism, nscopes, nnames


# ---- runtime ----------------------------------------------------------------------------------------------

def _dunder(n):
    return n.startswith("__") and n.endswith("__") and n != "__all__"


def compare_namespaces(coq_ns, survey):
    """coq_ns: parsed dump_namespaces [(mname, (names, all))]"""
    mism, n = [], 0
    for m, (names, allv) in coq_ns:
        live = survey["modules"].get(m)
        if live is None:
            mism.append({"module": m, "what": "module not imported by the probe"})
            continue
        a = {x for x in names if not _dunder(x)}
        b = {x for x in live["dir"] if not _dunder(x)}
        n += len(a | b)
        if a != b:
            mism.append({"module": m, "what": "namespace differs from dir(module) after import",
                         "only_in_model": sorted(a - b), "only_in_implementation": sorted(b - a)})
        model_all = None if allv == ("None",) else list(allv[1])
        if model_all != live["all"]:
            mism.append({"module": m, "what": "__all__ differs", "model": model_all, "implementation": live["all"]})
        n += 1
    return mism, n


def model_global_reads(prog, coq_scopes):
    """{(module, owner qualname): set(names the model classifies G)} for function-like
    scopes (class bodies excluded), guarded probes included"""
    idx = scope_index(prog)
    out = {}
    dump = {m: trees for m, trees in coq_scopes}

    def walk(mod, dn, sc, path, owner_class_body):
        _, nm, line, kind, loads, kids = dn
        entries = idx.get((mod, tuple(path + [nm]), line), [])
        e = next((x for x in entries if x["scope"] is sc), None)
        is_class = kind == ("KClass",)
        if e is not None and not is_class:
            key = (mod, e["owner"])
            s = out.setdefault(key, set())
            for n, c in loads:
                c = c if isinstance(c, str) else c[0]
                if c == "G":
                    s.add(n)
            # a probe read (except NameError) is a global read in the byte code when nothing binds it
            for n in sc.guarded:
                if n not in sc.params and n not in sc.binds:
                    s.add(n)
        for k, ksc in zip(kids, sc.children):
            walk(mod, k, ksc, path + [nm], is_class)

    for mt in prog["modules"]:
        for dn, sc in zip(dump.get(mt.modname, []), mt.mod.children):
            walk(mt.modname, dn, sc, [], True)
    return out


def compare_global_reads(prog, coq_scopes, survey):
    mine = model_global_reads(prog, coq_scopes)
    theirs = {}
    for m, entry in survey["modules"].items():
        for f in entry["functions"]:
            theirs.setdefault((m, f["qualname"]), set()).update(f["globals"])
    # CPython >= 3.12 inlines list/dict/set comprehensions into the enclosing code object (PEP 709):
    # such a scope has no code object of its own, and its global reads are the enclosing scope's
    for key in sorted(mine):
        last = key[1].split(".")[-1]
        if last in ("<listcomp>", "<dictcomp>", "<setcomp>") and key not in theirs:
            parts = key[1].split(".")[:-1]
            if parts and parts[-1] == "<locals>":
                parts = parts[:-1]
            parent = (key[0], ".".join(parts) if parts else "<module>")
            mine.setdefault(parent, set()).update(mine.pop(key))
    mism, n = [], 0
    for key in sorted(set(mine) | set(theirs)):
        a, b = mine.get(key), theirs.get(key)
        if key[1] == "<module>":
            continue
        n += 1
        if a is None or b is None:
            if (a or b):
                mism.append({"module": key[0], "function": key[1],
                             "what": "function-like scope present on one side only",
                             "model": sorted(a) if a is not None else None,
                             "implementation": sorted(b) if b is not None else None})
            continue
        if a != b:
            mism.append({"module": key[0], "function": key[1], "what": "global reads differ",
                         "only_in_model": sorted(a - b), "only_in_implementation": sorted(b - a)})
    return mism, n


def compare_classes(coq_classes, survey):
    """coq_classes: parsed dump_classes [(cid, (mro option, target bool, attrs))]"""
    mism, n = [], 0
    for cid, (mro, target, attrs) in coq_classes:
        live = survey["classes"].get(cid)
        n += 1
        if live is None:
            mism.append({"class": cid, "what": "class not found among the live classes of its module"})
            continue
        if mro == ("None",):
            continue   # reported as VBase by the checker
        model = set()
        for o in mro[1]:
            if o[0] == "OClass":
                model.add(o[1])
            elif o[0] == "OExt":
                model.add(o[1])
        # the live MRO also lists the ancestors of outside classes; compare package classes and direct outside bases
        live_pkg = {x for x in live["mro"] if ":" in x}
        model_pkg = {x for x in model if ":" in x}
        if live_pkg != model_pkg:
            mism.append({"class": cid, "what": "package ancestors differ", "model": sorted(model_pkg),
                         "implementation": sorted(live_pkg)})
        if not {x for x in model if ":" not in x} <= {x for x in live["mro"] if ":" not in x}:
            mism.append({"class": cid, "what": "outside ancestors of the model not in the live MRO",
                         "model": sorted(model), "implementation": live["mro"]})
        if (target == ("true",)) != live["target"]:
            mism.append({"class": cid, "what": "leaf/exported status differs", "model": target[0],
                         "implementation": live["target"]})
    for cid in survey["classes"]:
        if cid not in {c for c, _ in coq_classes}:
            mism.append({"class": cid, "what": "live class missing from the model"})
    return mism, n
