"""Self-test mutations for C20: small source edits of a *copy* of the package that
each break one reference; the static pipeline (translator + Gallina checker) must
report the broken name.  A run in which a mutation goes unreported fails, like
the deliberately wrong sentinel case of the correspondence streams.

Operators
  drop_import  delete a one-line `from m import name` whose name a function reads
  rename_def   rename a top-level `def f` that another function of the module calls
  self_typo    change one `self.meth` read into `self.meth__n0v_typo`
  all_bogus    add a name that does not exist to a module's __all__
"""
import ast
import os
import shutil

from . import translate as T

BOGUS = "n0v_bogus_name"


def _reads(mt):
    out = {}

    def walk(sc, top):
        for n in sc.loads:
            out.setdefault(n, set()).add(top)
        for c in sc.children:
            walk(c, top)
    for c in mt.mod.children:
        walk(c, c.name)
    return out


def candidates(prog):
    """[(operator, module translator, payload)]"""
    out = []
    for mt in prog["modules"]:
        reads = _reads(mt)
        has_star = any(ev[0] == "MStar" for ev in mt.body)
        bound = []
        for ev in mt.body:
            if ev[0] in ("MBind", "MClass", "MImport"):
                bound.append(ev[1])
            elif ev[0] == "MFrom":
                bound += [b for _, b in ev[2]]
        if not has_star:
            for ev in mt.body:
                if ev[0] == "MFrom" and len(ev[2]) == 1 and ev[3] == ev[4] and ev[2][0][1] in reads \
                        and bound.count(ev[2][0][1]) == 1 and ev[2][0][1] not in prog["builtins"]:
                    out.append(("drop_import", mt, {"name": ev[2][0][1], "line": ev[3]}))
        tree = mt.tree
        for node in tree.body:
            if isinstance(node, ast.FunctionDef) and not node.decorator_list and bound.count(node.name) == 1 \
                    and node.name not in prog["builtins"]:
                users = reads.get(node.name, set()) - {node.name}
                if users:
                    out.append(("rename_def", mt, {"name": node.name, "line": node.lineno}))
            if isinstance(node, ast.ClassDef):
                meths = {n.name for n in node.body if isinstance(n, ast.FunctionDef)}
                for fn in node.body:
                    if not isinstance(fn, ast.FunctionDef) or not fn.args.args or fn.args.args[0].arg != "self":
                        continue
                    if any(isinstance(d, ast.Name) and d.id in ("staticmethod", "classmethod") for d in fn.decorator_list):
                        continue
                    for sub in ast.walk(fn):
                        if isinstance(sub, ast.Attribute) and isinstance(sub.value, ast.Name) and sub.value.id == "self" \
                                and isinstance(sub.ctx, ast.Load) and sub.attr in meths and sub.lineno == sub.end_lineno \
                                and not sub.attr.startswith("__"):
                            out.append(("self_typo", mt, {"name": sub.attr + "__n0v_typo", "line": sub.lineno,
                                                          "col": sub.end_col_offset, "method": fn.name}))
                            break
            if isinstance(node, ast.Assign) and len(node.targets) == 1 and isinstance(node.targets[0], ast.Name) \
                    and node.targets[0].id == "__all__" and isinstance(node.value, (ast.Tuple, ast.List)) and node.value.elts:
                first = node.value.elts[0]
                out.append(("all_bogus", mt, {"name": BOGUS, "line": first.lineno, "col": first.col_offset}))
    return out


def apply(repo, pkg, workdir, index, op, mt, payload):
    """copy the package, edit one file; returns a description dict"""
    dst = os.path.join(workdir, "mutant_repo%d" % index)
    shutil.copytree(os.path.join(repo, pkg), os.path.join(dst, pkg),
                    ignore=shutil.ignore_patterns("__pycache__", "*.pyc", "test", "tests"))
    rel = os.path.relpath(mt.path, repo)
    p = os.path.join(dst, rel)
    with open(p, encoding="utf-8") as fh:
        lines = fh.readlines()
    i = payload["line"] - 1
    before = lines[i]
    if op == "drop_import":
        lines[i] = "pass\n" if before[:1] in " \t" else "\n"
    elif op == "rename_def":
        lines[i] = before.replace("def %s(" % payload["name"], "def %s__n0v_renamed(" % payload["name"], 1)
    elif op == "self_typo":
        # col is a utf-8 byte offset; the sources are ASCII on these lines or the edit is skipped
        if len(before.encode("utf-8")) != len(before):
            return None
        lines[i] = before[:payload["col"]] + "__n0v_typo" + before[payload["col"]:]
    elif op == "all_bogus":
        if len(before.encode("utf-8")) != len(before):
            return None
        lines[i] = before[:payload["col"]] + "'%s', " % BOGUS + before[payload["col"]:]
    if lines[i] == before:
        return None
    with open(p, "w", encoding="utf-8") as fh:
        fh.writelines(lines)
    return {"operator": op, "repo": dst, "module": mt.modname, "name": payload["name"], "line": payload["line"],
            "before": before.strip()[:120], "after": lines[i].strip()[:120], "progmod": "MutantProgram%d" % index}


def choose(prog, rng, tier):
    cands = candidates(prog)
    by_op = {}
    for c in cands:
        by_op.setdefault(c[0], []).append(c)
    picks = []
    ops = ["drop_import", "rename_def", "self_typo", "all_bogus"]
    if tier == "quick":
        want = {"drop_import": 1}
        other = [o for o in ops[1:] if by_op.get(o)]
        if other:
            want[other[rng.randrange(len(other))]] = 1
    else:
        want = {o: 3 for o in ops}
    for o in ops:
        pool = list(by_op.get(o, []))
        for _ in range(min(want.get(o, 0), len(pool))):
            picks.append(pool.pop(rng.randrange(len(pool))))
    return picks
