"""Runs in a subprocess with the repository checkout first on sys.path:
the *implementation side* of C20.

  python probe.py survey <repo> <pkg> <modules.json>
      imports the package and every listed module, and reports, from the live
      objects and the compiled byte code (independently of the translator and of
      the Coq model):
        - dir(module) and __all__ of every module,
        - for every function-like code object: the names it looks up as globals
          (LOAD_GLOBAL) and whether each is in the live module dict or builtins,
        - for every class of the package: live MRO, and for leaf/exported classes
          the self.x reads of every inherited method that no class in the MRO
          defines and no method assigns,
        - every __all__ entry missing from its module or from the package.
  python probe.py drive <repo> <pkg> <request.json>
      tries to reach the offending line of each given violation by calling the
      function with small generated arguments; records the NameError /
      AttributeError it raises (the failing input).

Output: one JSON document on stdout (last line)."""
import builtins
import contextlib
import dis
import importlib
import io
import itertools
import json
import os
import signal
import sys
import traceback
import types


def code_objects(co, qual=()):
    """(qualpath, code) for every code object nested in [co] (excluding co itself)"""
    for c in co.co_consts:
        if isinstance(c, types.CodeType):
            yield c
            yield from code_objects(c)


def is_class_body(co):
    # class bodies start by storing __module__ / __qualname__
    names = [i.argval for i in dis.get_instructions(co) if i.opname == "STORE_NAME"]
    return "__qualname__" in names and "__module__" in names


def global_loads(co):
    out = []
    for i in dis.get_instructions(co):
        if i.opname == "LOAD_GLOBAL" and i.argval not in out:
            out.append(i.argval)
    return out


_LOAD_SELF = ("LOAD_FAST", "LOAD_DEREF", "LOAD_FAST_CHECK", "LOAD_CLOSURE")


def self_attr_ops(co, selfname):
    """(reads, writes) of selfname.x in this code object and the nested ones that
    see the same variable as a free variable"""
    reads, writes = [], []
    ins = list(dis.get_instructions(co))
    for a, b in zip(ins, ins[1:]):
        if a.opname in ("LOAD_FAST", "LOAD_DEREF", "LOAD_FAST_CHECK") and a.argval == selfname:
            if b.opname in ("LOAD_ATTR", "LOAD_METHOD"):
                reads.append(b.argval)
            elif b.opname in ("STORE_ATTR",):
                writes.append(b.argval)
            elif b.opname == "DELETE_ATTR":
                reads.append(b.argval)
    # augmented assignment / multi-instruction stores: STORE_ATTR whose object was self
    # is already covered by the pairs above in CPython 3.12 (LOAD_FAST self; STORE_ATTR x)
    for c in co.co_consts:
        if isinstance(c, types.CodeType) and selfname in c.co_freevars:
            r, w = self_attr_ops(c, selfname)
            reads += r
            writes += w
    return reads, writes


def survey(repo, pkg, modules):
    res = {"modules": {}, "unbound": [], "self_attr": [], "all_missing": [], "not_exposed": [], "classes": {},
           "attr_missing": []}
    try:
        root = importlib.import_module(pkg)
    except BaseException as e:  # noqa
        res["import_error"] = {"module": pkg, "type": type(e).__name__, "msg": str(e)[:500],
                               "traceback": traceback.format_exc()[-3000:]}
        return res
    here = os.path.abspath(os.path.dirname(root.__file__))
    if os.path.dirname(here) != os.path.abspath(repo):
        res["import_error"] = {"module": pkg, "type": "WrongCheckout", "msg": "imported from %s" % here, "traceback": ""}
        return res
    live = {}
    for m in modules:
        try:
            live[m["name"]] = importlib.import_module(m["name"])
        except BaseException as e:  # noqa
            res["import_error"] = {"module": m["name"], "type": type(e).__name__, "msg": str(e)[:500],
                                   "traceback": traceback.format_exc()[-3000:]}
            return res
        if not _in_repo(live[m["name"]], repo):
            res["import_error"] = {"module": m["name"], "type": "WrongCheckout",
                                   "msg": "imported from %s" % getattr(live[m["name"]], "__file__", None), "traceback": ""}
            return res
    bnames = set(dir(builtins))
    nfun = nloads = 0
    pkg_classes = []
    for m in modules:
        for k, v in vars(live[m["name"]]).items():
            if isinstance(v, type) and v.__module__ == m["name"] and v not in pkg_classes:
                pkg_classes.append(v)
    pkg_modules = [live[m["name"]] for m in modules]
    for m in modules:
        mod = live[m["name"]]
        names = sorted(vars(mod).keys())
        allv = getattr(mod, "__all__", None)
        entry = {"dir": names, "all": list(allv) if allv is not None else None, "functions": []}
        with open(m["path"], encoding="utf-8") as fh:
            src = fh.read()
        top = compile(src, m["path"], "exec", dont_inherit=True)
        for co in code_objects(top):
            if is_class_body(co):
                continue
            gl = global_loads(co)
            nfun += 1
            nloads += len(gl)
            missing = [n for n in gl if n not in vars(mod) and n not in bnames]
            entry["functions"].append({"qualname": co.co_qualname, "line": co.co_firstlineno, "globals": gl,
                                       "missing": missing})
            for n in missing:
                res["unbound"].append({"module": m["name"], "qualname": co.co_qualname, "line": co.co_firstlineno, "name": n})
            # Class.attr / module.attr with the base looked up as a global naming a package class or module
            ins = list(dis.get_instructions(co))
            for a, b in zip(ins, ins[1:]):
                if a.opname == "LOAD_GLOBAL" and b.opname in ("LOAD_ATTR", "LOAD_METHOD") and a.argval in vars(mod):
                    obj = vars(mod)[a.argval]
                    if (any(obj is c for c in pkg_classes) or any(obj is x for x in pkg_modules)) and not hasattr(obj, b.argval):
                        item = {"module": m["name"], "qualname": co.co_qualname, "line": co.co_firstlineno,
                                "base": a.argval, "name": b.argval}
                        if item not in res["attr_missing"]:
                            res["attr_missing"].append(item)
        if allv is not None:
            for n in allv:
                if not hasattr(mod, n):
                    res["all_missing"].append({"module": m["name"], "name": n})
                if not hasattr(root, n):
                    res["not_exposed"].append({"module": m["name"], "name": n})
        res["modules"][m["name"]] = entry
    # classes
    classes = []
    for m in modules:
        mod = live[m["name"]]
        for k, v in vars(mod).items():
            if isinstance(v, type) and v.__module__ == m["name"] and v not in classes:
                classes.append(v)
    exported = set()
    for n in getattr(root, "__all__", ()) or ():
        v = getattr(root, n, None)
        if isinstance(v, type):
            exported.add(v)
    for c in classes:
        cid = "%s:%s" % (c.__module__, c.__qualname__)
        subs = [d for d in classes if d is not c and issubclass(d, c)]
        is_target = (not subs) or (c in exported)
        res["classes"][cid] = {"mro": ["%s:%s" % (b.__module__, b.__qualname__) if b in classes else "%s.%s" % (b.__module__, b.__qualname__)
                                       for b in c.__mro__], "target": is_target}
        if not is_target:
            continue
        stores = set()
        uses = []
        for b in c.__mro__:
            if b not in classes:
                continue
            for fname, f in vars(b).items():
                if not isinstance(f, types.FunctionType):
                    continue
                co = f.__code__
                if co.co_argcount < 1 and not (co.co_flags & 0x04):
                    continue
                selfname = co.co_varnames[0] if co.co_varnames else None
                if selfname is None:
                    continue
                r, w = self_attr_ops(co, selfname)
                stores.update(w)
                uses += [(b, fname, co.co_firstlineno, x) for x in r]
        dyn = any("__getattr__" in vars(b) for b in c.__mro__)
        for b, fname, line, x in uses:
            if dyn or hasattr(c, x) or x in stores:
                continue
            item = {"module": c.__module__, "target": cid, "def": "%s:%s" % (b.__module__, b.__qualname__),
                    "method": fname, "line": line, "attr": x}
            if item not in res["self_attr"]:
                res["self_attr"].append(item)
    res["counts"] = {"functions": nfun, "global_loads": nloads, "classes": len(classes)}
    return res


# ---- driving a function to the offending line ---------------------------------------------------

class _Timeout(Exception):
    pass


def _alarm(signum, frame):
    raise _Timeout()


def _pool(root):
    vals = [None, "", "a", 0, 1, [], {}, "2020-01-01", "0101", [{"a": 1}], {"a": 1}, "a.csv", b"", True]
    for nm in ("n0dict", "n0list"):
        c = getattr(root, nm, None)
        if c is not None:
            try:
                vals.append(c())
                vals.append(c({"a": 1}) if nm == "n0dict" else c([1]))
            except BaseException:  # noqa
                pass
    return vals


def _describe(v):
    try:
        return "%s(%s)" % (type(v).__name__, repr(v)[:60])
    except BaseException:  # noqa
        return type(v).__name__


def _hit(e, want_name, kind):
    """does exception e say the recorded name/attribute is missing?"""
    if kind == "unbound" and isinstance(e, NameError):
        return getattr(e, "name", None) == want_name or ("'%s'" % want_name) in str(e)
    if kind in ("self_attr", "attr") and isinstance(e, AttributeError):
        return getattr(e, "name", None) == want_name or ("'%s'" % want_name) in str(e)
    return False


def _call(fn, args):
    old = signal.signal(signal.SIGALRM, _alarm)
    signal.setitimer(signal.ITIMER_REAL, 1.0)
    try:
        with contextlib.redirect_stdout(io.StringIO()), contextlib.redirect_stderr(io.StringIO()):
            r = fn(*args)
            if isinstance(r, types.GeneratorType):
                next(r, None)
        return None
    except _Timeout:
        return None
    except BaseException as e:  # noqa
        return e
    finally:
        signal.setitimer(signal.ITIMER_REAL, 0)
        signal.signal(signal.SIGALRM, old)


def _resolve_callable(root, mod, path):
    """object for a scope path like ['Git','log'] / ['f'] / ['f','listcomp'] -> (callable, owner class or None, outermost name)"""
    obj, owner = mod, None
    for i, part in enumerate(path):
        if part in ("lambda", "listcomp", "dictcomp", "setcomp", "genexpr"):
            break
        nxt = vars(obj).get(part) if isinstance(obj, (type, types.ModuleType)) else None
        if nxt is None:
            break
        if isinstance(nxt, (staticmethod, classmethod)):
            nxt = nxt.__func__
        if isinstance(obj, type):
            owner = obj
        obj = nxt
        if isinstance(obj, types.FunctionType):
            return obj, owner
    if isinstance(obj, types.FunctionType):
        return obj, owner
    return None, owner


def drive(repo, pkg, req):
    out = []
    try:
        root = importlib.import_module(pkg)
    except BaseException as e:  # noqa
        return {"import_error": {"module": pkg, "type": type(e).__name__, "msg": str(e)[:500],
                                 "traceback": traceback.format_exc()[-3000:]}, "results": []}
    try:
        from loguru import logger
        logger.remove()
    except BaseException:  # noqa
        pass
    pool = _pool(root)
    cwd = os.getcwd()
    for v in req["violations"]:
        r = dict(v)
        r["reached"] = False
        try:
            mod = importlib.import_module(v["module"])
            if not _in_repo(mod, repo):
                raise ImportError("not part of this checkout")
        except BaseException as e:  # noqa
            r["note"] = "module does not import: %s" % e
            out.append(r)
            continue
        kind = v["kind"]
        want = v["name"]
        if kind == "unbound":
            r["still_unbound"] = (want not in vars(mod)) and not hasattr(builtins, want)
            fn, owner = _resolve_callable(root, mod, v["path"])
        elif kind == "attr":
            r["still_unbound"] = not hasattr(vars(mod).get(v.get("base")), want)
            fn, owner = _resolve_callable(root, mod, v["path"])
        elif kind == "self_attr":
            tmod, _, tq = v["target"].partition(":")
            try:
                tcls = importlib.import_module(tmod)
                for part in tq.split("."):
                    tcls = getattr(tcls, part)
            except BaseException as e:  # noqa
                r["note"] = "target class not found: %s" % e
                out.append(r)
                continue
            r["still_unbound"] = not hasattr(tcls, want)
            fn, owner = getattr(tcls, v["method"], None), tcls
            if not isinstance(fn, types.FunctionType):
                fn = None
        else:
            out.append(r)
            continue
        if fn is None:
            r["note"] = "no callable found for this scope"
            out.append(r)
            continue
        # instances to call a method on
        selves = [()]
        if owner is not None:
            selves = []
            for a in [(), ("a",), ({"a": 1},), ([1],), ("a", "b"), ("<a/>",)]:
                try:
                    with contextlib.redirect_stdout(io.StringIO()), contextlib.redirect_stderr(io.StringIO()):
                        inst = owner.__new__(owner) if a == () and owner.__init__ is not object.__init__ and False else owner(*a)
                    selves.append((inst,))
                    if len(selves) >= 2:
                        break
                except BaseException:  # noqa
                    continue
            if not selves:
                try:
                    selves = [(owner.__new__(owner),)]
                except BaseException:  # noqa
                    selves = []
        co = fn.__code__
        npos = co.co_argcount - (1 if owner is not None else 0)
        ndef = len(fn.__defaults__ or ())
        tried = 0
        done = False
        for nargs in range(max(0, npos - ndef), npos + 1):
            if done:
                break
            for combo in itertools.product(pool, repeat=nargs):
                tried += 1
                if tried > req.get("max_tries", 600):
                    done = True
                    break
                for s in (selves or [()]):
                    e = _call(fn, tuple(s) + combo)
                    if e is not None and _hit(e, want, kind):
                        r["reached"] = True
                        r["call"] = {"function": "%s.%s" % (v["module"], fn.__qualname__),
                                     "self": _describe(s[0]) if s else None,
                                     "args": [_describe(a) for a in combo]}
                        r["exception"] = "%s: %s" % (type(e).__name__, str(e)[:200])
                        done = True
                        break
                if done:
                    break
        r["tried"] = tried
        os.chdir(cwd)
        out.append(r)
    return {"results": out}


def _only_this_checkout(repo):
    """the package may also be installed (editable) in the interpreter: finders that
    would serve modules of another checkout are removed, so that a module missing
    from the checkout under test is missing"""
    sys.meta_path[:] = [f for f in sys.meta_path
                        if "__editable__" not in (getattr(f, "__module__", "") or "") + getattr(f, "__name__", "")
                        and "__editable__" not in type(f).__module__ + type(f).__name__]


def _in_repo(mod, repo):
    f = getattr(mod, "__file__", None)
    return bool(f) and os.path.abspath(f).startswith(os.path.abspath(repo) + os.sep)


def main(argv):
    mode, repo, pkg, reqfile = argv[:4]
    sys.path.insert(0, repo)
    sys.dont_write_bytecode = True
    _only_this_checkout(repo)
    with open(reqfile) as fh:
        req = json.load(fh)
    real_stdout = sys.stdout
    buf = io.StringIO()
    with contextlib.redirect_stdout(buf), contextlib.redirect_stderr(io.StringIO()):
        try:
            from loguru import logger
            logger.remove()
        except BaseException:  # noqa
            pass
        if mode == "survey":
            res = survey(repo, pkg, req["modules"])
        else:
            res = drive(repo, pkg, req)
    real_stdout.write("\n" + json.dumps(res, default=str) + "\n")
    real_stdout.flush()
    os._exit(0)


if __name__ == "__main__":
    main(sys.argv[1:])
