"""Regenerates /verif/MANIFEST.json from harness/manifest_meta.json and the property modules present."""
import json
import os

HERE = os.path.dirname(os.path.abspath(__file__))
VERIF = os.path.dirname(HERE)
meta = json.load(open(os.path.join(HERE, "manifest_meta.json")))
meta["checks"] = {f[:-5]: json.load(open(os.path.join(HERE, "meta", f))) for f in sorted(os.listdir(os.path.join(HERE, "meta"))) if f.endswith(".json")}
have = sorted(f[:-3].upper() for f in os.listdir(os.path.join(HERE, "props")) if f.startswith("c") and f.endswith(".py"))
all_ids = [json.loads(l)["id"] for l in open(os.path.join(VERIF, "properties.jsonl"))]
checks = []
for pid in all_ids:
    if pid not in have or pid not in meta["checks"]:
        continue
    m = meta["checks"][pid]
    checks.append({
        "property_id": pid,
        "quick_cmd": "bin/check %s quick" % pid,
        "thorough_cmd": "bin/check %s thorough" % pid,
        "evidence_file": "/verif/evidence/%s.json" % pid,
        "replay_cmd_template": "bin/check --replay {path}",
        "engine": "coq-proof+correspondence",
        "level_claimed": {"category": "proof", "text": m["text"], "design_ref": m["design_ref"]},
        "level_note": m["note"],
        "technique": m["technique"],
    })
na = [{"property_id": pid, "reason": meta["not_applicable"].get(pid, "no check registered yet: the Coq model and correspondence harness for this property are not built (see DESIGN.md section 9)")}
      for pid in all_ids if pid not in [c["property_id"] for c in checks]]
man = {
    "version": 1,
    "setup_cmd": "cd /verif && bin/mkproject && cd coq && coq_makefile -f _CoqProject -o Makefile && timeout 3000 make -j16",
    "hooks": meta["hooks"],
    "engines": [{"name": "coq-proof+correspondence", "path": "/verif/coq, /verif/harness",
                 "serves_properties": [c["property_id"] for c in checks],
                 "kind_free_text": "Coq 8.16.1 development (theories/Props/Cxx.v rechecked with Print Assumptions on every run) + Python harness that runs the implementation in /repo and the Gallina model (vm_compute in sharded coqc) on the same generated inputs and evaluates the property oracle on the implementation"}],
    "checks": checks,
    "notes": meta["notes"],
    "not_applicable": na,
}
json.dump(man, open(os.path.join(VERIF, "MANIFEST.json"), "w"), indent=1)
print("MANIFEST.json: %d checks, %d not_applicable" % (len(checks), len(na)))

fdir = os.path.join(VERIF, "findings")
allf = []
for f in sorted(os.listdir(fdir)):
    if f.endswith(".json"):
        allf += json.load(open(os.path.join(fdir, f)))
json.dump({"comment": "Genuine defects of py552/n0struct found by the checks (merged from findings/*.json by harness/mk_manifest.py at development time; never written by a check). status=known: recorded; the check prints KNOWN-FINDING and exits 0 while only inputs matching the entry's classifier fail. status=fixed: repaired by the named 'fix:' commit in /repo; suppresses nothing.",
           "findings": allf}, open(os.path.join(VERIF, "known_findings.json"), "w"), indent=1)
print("known_findings.json: %d entries" % len(allf))
